#!/usr/bin/env python3
"""Driver of the go-libaudit verification machinery (python3 stdlib only).

  python3 check.py <ID> [--tier quick|thorough] [--replay FILE]

Builds the property's test binary from /repo's current working tree (the go.mod
replace directive points at /repo), replays the saved regression cases, runs the
generated search (rapid / enumeration / stress / native fuzz stages), merges the
evidence fragments into evidence/<ID>.json and reports:

  exit 0  property held on everything explored (KNOWN-FINDING lines possible)
  exit 1  VIOLATION property=<ID> replay=<path>
  exit 2  the check could not decide (build failure, harness time-out, worker
          death, vacuous run)
"""
import argparse
import glob
import json
import os
import re
import shutil
import signal
import subprocess
import sys
import time

ROOT = os.path.dirname(os.path.abspath(__file__))
REPO = "/repo"
BUILD = os.path.join(ROOT, ".build")
RUNS = os.path.join(ROOT, ".run")
REPLAYS = os.path.join(ROOT, "replays")
EVIDENCE = os.path.join(ROOT, "evidence")
NCPU = os.cpu_count() or 4

GOENV = {
    "GOFLAGS": "-mod=mod",
    "GOPROXY": "off",
    "GOSUMDB": "off",
    "GOTOOLCHAIN": "local",
    "GONOSUMDB": "*",
    "GONOSUMCHECK": "1",
    "GOFLAGS_EXTRA": "",
}


def S(pkg, run, kind="rapid", q=0, t=0, shards=1, race=False, timeout_q=900, timeout_t=1500,
      env=None, fuzz=None, fuzztime_t=0, quick=True, thorough=True, steps=None):
    """One stage of a check.
    kind: rapid  -> -rapid.checks=q|t, sharded by seed in the thorough tier
          plain  -> deterministic enumeration / stress; VERIF_N=q|t is passed
          fuzz   -> native go fuzzing of target `fuzz` for fuzztime_t seconds (thorough only)
    """
    return dict(pkg=pkg, run=run, kind=kind, q=q, t=t, shards=shards, race=race,
                timeout_q=timeout_q, timeout_t=timeout_t, env=env or {}, fuzz=fuzz,
                fuzztime_t=fuzztime_t, quick=quick, thorough=thorough, steps=steps)


# Per property: stages, the evidence level and assumptions. Test names all start
# with Test<ID>; the "Regress" tests replay regress/<ID>/*.json without rapid.
PROPS = {}


def prop(pid, stages, assumptions, nontrivial_classes=()):
    PROPS[pid] = dict(stages=stages, assumptions=assumptions, need=nontrivial_classes)


# ---------------------------------------------------------------------------------------
# stage tables (filled in below, one block per package)

exec(open(os.path.join(ROOT, "checks_table.py")).read())

# ---------------------------------------------------------------------------------------


def goenv():
    e = dict(os.environ)
    e.update({k: v for k, v in GOENV.items() if k in ("GOFLAGS", "GOPROXY", "GOSUMDB", "GOTOOLCHAIN")})
    e["VERIF_ROOT"] = ROOT
    e.setdefault("HOME", "/root")
    e.setdefault("GOCACHE", os.path.join(e["HOME"], ".cache", "go-build"))
    return e


def sh(cmd, env, timeout, cwd=ROOT, logf=None):
    """Run cmd, return (rc, output, timed_out). Kills the whole process group on time-out."""
    p = subprocess.Popen(cmd, cwd=cwd, env=env, stdout=subprocess.PIPE, stderr=subprocess.STDOUT,
                         start_new_session=True, text=True, errors="replace")
    try:
        out, _ = p.communicate(timeout=timeout)
        to = False
    except subprocess.TimeoutExpired:
        try:
            os.killpg(p.pid, signal.SIGKILL)
        except ProcessLookupError:
            pass
        out, _ = p.communicate()
        to = True
    if logf:
        with open(logf, "w") as f:
            f.write(out)
    return p.returncode, out, to


def build(pkg, race):
    os.makedirs(BUILD, exist_ok=True)
    name = pkg.replace("/", "_") + ("_race" if race else "") + ".test"
    out = os.path.join(BUILD, name)
    cmd = ["go", "test", "-c", "-tags", "verif", "-vet=off", "-o", out]
    if race:
        cmd.append("-race")
    cmd.append("./" + pkg)
    rc, o, to = sh(cmd, goenv(), 900)
    if rc != 0 or to or not os.path.exists(out):
        sys.stdout.write(o[-6000:])
        return None
    return out


def build_evmerge():
    out = os.path.join(BUILD, "evmerge")
    rc, o, to = sh(["go", "build", "-o", out, "./cmd/evmerge"], goenv(), 600)
    if rc != 0 or to:
        sys.stdout.write(o[-3000:])
        return None
    return out


class Outcome:
    def __init__(self):
        self.violations = []   # replay paths
        self.undecided = []    # reasons
        self.known = {}        # key -> line


def classify(pid, rc, out, timed_out, logf, res, stage_name, replay_hint=None):
    for line in out.splitlines():
        if line.startswith("KNOWN-FINDING:") and ("property=%s " % pid) in line:
            m = re.search(r"key=(\S+)", line)
            res.known.setdefault(m.group(1) if m else line, line)
    if timed_out or "panic: test timed out" in out:
        # A hang of the code under test is reported by the watchdogs inside the tests
        # (with a VERIF-VIOLATION line) long before the harness budget runs out.
        if "VERIF-VIOLATION" not in out:
            res.undecided.append("%s: harness time budget exhausted (see %s)" % (stage_name, logf))
            return
    if rc == 0 and not timed_out:
        return
    if "VERIF-HARNESS" in out and "VERIF-VIOLATION" not in out:
        # the harness' own set-up traffic went wrong (not a statement about the code under test)
        res.undecided.append("%s: harness problem (see %s)" % (stage_name, logf))
        return
    if rc is not None and rc < 0 and "VERIF-VIOLATION" not in out:
        res.undecided.append("%s: worker killed by signal %d (see %s)" % (stage_name, -rc, logf))
        return
    if "cannot allocate memory" in out or "out of memory" in out:
        if "VERIF-VIOLATION" not in out:
            res.undecided.append("%s: out of memory (see %s)" % (stage_name, logf))
            return
    m = re.findall(r"VERIF-VIOLATION property=%s case=(\S+)" % pid, out)
    if m and m[-1] != "fuzz":
        res.violations.append(m[-1])
    elif not m and crash_case(pid, out, res):
        pass
    else:
        # the test binary failed without a marker (crash of the code under test in a
        # goroutine, rapid "flaky"/generator failure...): the log is the replay artefact
        res.violations.append(replay_hint or logf)


def crash_case(pid, out, res):
    """A worker that died from a fatal runtime error leaves the case it was running in a
    crash file (hx.EnableCrashFile); that file becomes the replay artefact."""
    if "fatal error:" not in out and "panic:" not in out and "signal:" not in out:
        return False
    rundir = CURRENT_RUNDIR[0]
    for f in sorted(glob.glob(os.path.join(rundir, "crash-*.case.json")), key=os.path.getmtime, reverse=True):
        raw = open(f, "rb").read().split(b"\0", 1)[0]
        if not raw:
            continue
        try:
            json.loads(raw)
        except Exception:
            continue
        dst = os.path.join(REPLAYS, "%s-crash-%d.case.json" % (pid, int(time.time())))
        with open(dst, "wb") as o:
            o.write(raw)
        res.violations.append(dst)
        return True
    return False


CURRENT_RUNDIR = [None]


def run_check(pid, tier, seed, replay):
    t0 = time.time()
    cfg = PROPS[pid]
    res = Outcome()
    rundir = os.path.join(RUNS, "%s-%s-%d-%d" % (pid, tier, seed, os.getpid()))
    CURRENT_RUNDIR[0] = rundir
    shutil.rmtree(rundir, ignore_errors=True)
    if not replay:
        for old in glob.glob(os.path.join(REPLAYS, "%s-*" % pid)):
            os.remove(old)  # stale artefacts of earlier runs would be confusing
    evdir = os.path.join(rundir, "ev")
    os.makedirs(evdir)
    os.makedirs(REPLAYS, exist_ok=True)
    os.makedirs(EVIDENCE, exist_ok=True)

    evmerge = build_evmerge()
    bins = {}
    for st in cfg["stages"]:
        key = (st["pkg"], st["race"])
        if key not in bins:
            bins[key] = build(*key)
    if evmerge is None or any(b is None for b in bins.values()):
        print("UNDECIDED property=%s build failed" % pid)
        return 2

    base_env = goenv()
    base_env.update(VERIF_TIER=tier, VERIF_SEED=str(seed), VERIF_EV_DIR=evdir,
                    VERIF_REPLAY_DIR=REPLAYS, VERIF_RUN_DIR=rundir)

    stages_run = []
    if replay:
        # replay one saved case (or a rapid fail file) without the search
        rp = os.path.abspath(replay)
        tests = set()
        env = dict(base_env, VERIF_SEED_EFF=str(seed))
        if rp.endswith(".fail"):
            extra = ["-rapid.failfile=" + rp]
            meta = rp + ".json"
            test = json.load(open(meta))["test"] if os.path.exists(meta) else "^Test%s" % pid
            run = test
        else:
            env["VERIF_REPLAY_CASE"] = rp
            run = "^Test%s.*Regress$" % pid
            extra = []
        for (pkg, race), b in bins.items():
            if race:
                continue
            wd = os.path.join(rundir, "replay-" + pkg.replace("/", "_"))
            os.makedirs(wd, exist_ok=True)
            logf = os.path.join(REPLAYS, "%s-replay.log" % pid)
            rc, out, to = sh([b, "-test.run", run, "-test.v", "-test.timeout", "600s"] + extra, env, 700, cwd=wd, logf=logf)
            sys.stdout.write(out[-4000:])
            classify(pid, rc, out, to, logf, res, "replay", replay_hint=rp)
        return finish(pid, tier, seed, res, evmerge, evdir, rundir, t0, stages_run, cfg, replay=True)

    procs = []
    for si, st in enumerate(cfg["stages"]):
        if tier == "quick" and not st["quick"]:
            continue
        if tier == "thorough" and not st["thorough"]:
            continue
        if st["kind"] == "fuzz" and tier != "thorough":
            continue
        b = bins[(st["pkg"], st["race"])]
        n = st["t"] if tier == "thorough" else st["q"]
        timeout = st["timeout_t"] if tier == "thorough" else st["timeout_q"]
        shards = st["shards"] if (tier == "thorough" and st["kind"] in ("rapid", "plain")) else 1
        shards = max(1, min(shards, NCPU))
        for sh_i in range(shards):
            eff = seed * 1000 + sh_i if shards > 1 else seed
            if eff == 0:
                eff = 0x9E3779B9
            name = "s%d-%s-%d" % (si, st["run"].strip("^$").replace("|", "+")[:40], sh_i)
            wd = os.path.join(rundir, name)
            os.makedirs(wd, exist_ok=True)
            env = dict(base_env, VERIF_SEED_EFF=str(eff), VERIF_SHARD=str(sh_i), VERIF_NSHARDS=str(shards),
                       VERIF_N=str(n))
            env.update({k: str(v) for k, v in st["env"].items()})
            cmd = [b, "-test.run", st["run"], "-test.v", "-test.timeout", "%ds" % timeout]
            if st["kind"] == "rapid":
                cmd += ["-rapid.checks=%d" % n, "-rapid.seed=%d" % eff, "-rapid.nofailfile"]
                if st["steps"]:
                    cmd += ["-rapid.steps=%d" % st["steps"]]
            elif st["kind"] == "fuzz":
                # native fuzzing needs the package directory (testdata/fuzz) and one target
                cdir = os.path.join(rundir, "fuzzcache-%d" % si)
                os.makedirs(cdir, exist_ok=True)
                # (the package has to come before the flags that only the test binary knows)
                cmd = ["go", "test", "-tags", "verif", "-vet=off", "./" + st["pkg"], "-run", "^$", "-fuzz", "^%s$" % st["fuzz"],
                       "-fuzztime", "%ds" % st["fuzztime_t"], "-parallel", str(NCPU), "-test.fuzzcachedir", cdir]
                wd = ROOT
                timeout = st["fuzztime_t"] + 600
            logf = os.path.join(rundir, name + ".log")
            procs.append((name, st, cmd, env, timeout, wd, logf))

    # run stages: sharded stages in parallel, everything else sequentially (stress
    # stages own the machine while they run)
    i = 0
    while i < len(procs):
        name, st, cmd, env, timeout, wd, logf = procs[i]
        group = [procs[i]]
        j = i + 1
        while j < len(procs) and procs[j][1] is st:
            group.append(procs[j])
            j += 1
        i = j
        running = []
        for (gname, gst, gcmd, genv, gto, gwd, glog) in group:
            f = open(glog, "w")
            p = subprocess.Popen(gcmd, cwd=gwd, env=genv, stdout=f, stderr=subprocess.STDOUT, start_new_session=True)
            running.append((gname, p, f, glog, time.time() + gto + 60))
        for (gname, p, f, glog, deadline) in running:
            to = False
            try:
                p.wait(timeout=max(1, deadline - time.time()))
            except subprocess.TimeoutExpired:
                to = True
                try:
                    os.killpg(p.pid, signal.SIGKILL)
                except ProcessLookupError:
                    pass
                p.wait()
            f.close()
            out = open(glog, errors="replace").read()
            entry = dict(stage=gname, rc=p.returncode, timed_out=to)
            if st["kind"] == "fuzz":
                ex = re.findall(r"execs: (\d+)", out)
                entry["fuzz_target"] = st["fuzz"]
                entry["native_fuzz_execs"] = int(ex[-1]) if ex else 0
            stages_run.append(entry)
            keep = None
            if p.returncode != 0 or to:
                keep = os.path.join(REPLAYS, "%s-%s-seed%d.log" % (pid, gname, seed))
                shutil.copyfile(glog, keep)
                if st["kind"] == "fuzz":
                    # crashers are written to <pkg>/testdata/fuzz/<target>/; move them to replays/
                    for c in glob.glob(os.path.join(ROOT, st["pkg"], "testdata", "fuzz", st["fuzz"], "*")):
                        dst = os.path.join(REPLAYS, "%s-fuzz-%s-%s" % (pid, st["fuzz"], os.path.basename(c)))
                        shutil.move(c, dst)
                        keep = dst
            classify(pid, p.returncode, out, to, keep or glog, res, gname, replay_hint=keep)
        if res.violations:
            # decided: the remaining stages could only repeat it (and code that breaks one clause often makes a
            # later stage wait for something that never comes)
            for (gname, gst, gcmd, genv, gto, gwd, glog) in procs[i:]:
                stages_run.append(dict(stage=gname, rc=None, timed_out=False, skipped="a violation was already found"))
            break
    return finish(pid, tier, seed, res, evmerge, evdir, rundir, t0, stages_run, cfg)


def finish(pid, tier, seed, res, evmerge, evdir, rundir, t0, stages_run, cfg, replay=False):
    rc, out, to = sh([evmerge, evdir, pid], goenv(), 600)
    try:
        m = json.loads(out)
    except Exception:
        m = dict(evaluations=0, distinct_nontrivial=0, rule="", samples=[], classes={}, known={}, known_detail={},
                 excluded_known_finding_cases=0, exhaustive=False, extra={}, nontrivial_total=0,
                 fingerprints_capped=False, fragments=0, violations=0)
    for k, line in sorted(res.known.items()):
        print(line)
    missing = [c for c in cfg["need"] if m.get("classes", {}).get(c, 0) == 0]
    status = 0
    if res.violations:
        status = 1
    elif res.undecided:
        status = 2
    elif not replay and (m["evaluations"] == 0 or m["distinct_nontrivial"] < 2 or missing):
        res.undecided.append("vacuous run: evaluations=%d distinct_nontrivial=%d empty classes=%s" %
                             (m["evaluations"], m["distinct_nontrivial"], missing))
        status = 2
    wall = time.time() - t0
    if not replay:
        rule = m.get("rule", "")
        if m.get("fingerprints_capped"):
            rule += " [fingerprint sets were capped per process: distinct_nontrivial is a lower bound]"
        cov = dict(evaluations=int(m["evaluations"]), distinct_nontrivial=int(m["distinct_nontrivial"]),
                   rule=rule, samples=m.get("samples") or ["(no non-trivial case was sampled)"],
                   exhaustive=bool(m.get("exhaustive")), nontrivial_total=int(m.get("nontrivial_total", 0)),
                   classes=m.get("classes", {}), known_findings_observed=m.get("known", {}),
                   excluded_known_finding_cases=int(m.get("excluded_known_finding_cases", 0)),
                   stages=stages_run, processes=int(m.get("fragments", 0)))
        cov.update(m.get("extra") or {})
        fz = sum(e.get("native_fuzz_execs", 0) for e in stages_run)
        if fz:
            cov["native_fuzz_execs"] = fz  # coverage-guided executions of the same oracle (not counted in evaluations)
        ev = dict(property_id=pid, tier=tier, seed=seed, level="exploration", coverage=cov,
                  assumptions=cfg["assumptions"], wall_s=round(wall, 2), violations=len(res.violations),
                  undecided=res.undecided)
        tmp = os.path.join(EVIDENCE, ".%s.json.tmp" % pid)
        with open(tmp, "w") as f:
            json.dump(ev, f, indent=1, sort_keys=True)
        os.replace(tmp, os.path.join(EVIDENCE, "%s.json" % pid))
    for r in res.undecided:
        print("UNDECIDED property=%s %s" % (pid, r))
    for v in res.violations[:1]:
        print("VIOLATION property=%s replay=%s" % (pid, v))
    if status == 0:
        print("OK property=%s tier=%s seed=%d evaluations=%d distinct_nontrivial=%d wall=%.1fs" %
              (pid, tier, seed, m["evaluations"], m["distinct_nontrivial"], wall))
    if os.environ.get("VERIF_KEEP_RUN") is None:
        # logs of failing stages were copied to replays/
        shutil.rmtree(rundir, ignore_errors=True)
    return status


def main():
    ap = argparse.ArgumentParser()
    ap.add_argument("id")
    ap.add_argument("--tier", default=os.environ.get("VERIF_TIER") or "quick", choices=["quick", "thorough"])
    ap.add_argument("--replay")
    a = ap.parse_args()
    if a.id not in PROPS:
        print("unknown property %s" % a.id)
        return 2
    try:
        seed = int(os.environ.get("VERIF_SEED", "1"))
    except ValueError:
        seed = 1
    seed = abs(seed) % (1 << 31)
    if seed == 0:
        seed = 0x5EED  # rapid treats 0 as "random"
    return run_check(a.id, a.tier, seed, a.replay)


if __name__ == "__main__":
    sys.exit(main())
