// Package recgen generates audit records (kenc.Rec) of the shapes the kernel and
// the user-space tools emit, with arbitrary field values. It is shared by the
// parser checks (C05 C12) and the coalescing checks (C09 C15).
package recgen

import (
	"fmt"
	"strconv"
	"strings"

	"pgregory.net/rapid"

	"verif/internal/kenc"
)

// Record type codes used by the generators (kernel UAPI values).
const (
	USER_CMD   = 1123
	USER_LOGIN = 1112
	USER_START = 1105
	USER_END   = 1106
	USER_AUTH  = 1100
	USER_ACCT  = 1101
	CRED_ACQ   = 1103
	CRED_DISP  = 1104
	USER_TTY   = 1124
	LOGIN      = 1006
	SYSCALL    = 1300
	PATH       = 1302
	IPC        = 1303
	SOCKADDR   = 1306
	CWD        = 1307
	EXECVE     = 1309
	TTY        = 1319
	EOE        = 1320
	SECCOMP    = 1326
	PROCTITLE  = 1327
	AVC        = 1400
	CONFIG_CHG = 1305
	ANOM_ABEND = 1701
	KERN_MOD   = 1330
	BPRM_FCAPS = 1321
	MMAP       = 1323
	NETFILTER  = 1325
	OBJ_PID    = 1318
	FD_PAIR    = 1317
	SERVICE_ST = 1130
)

// ValOpts restricts generated values.
type ValOpts struct {
	NoSingleQuote bool // inside a user-space msg='…' wrapper
	MaxLen        int
	SafeOnly      bool // only bytes the kernel writes in quotes
}

// Val draws a field value: any bytes 0x01-0xFF with a bias to the characters
// that matter to the parser. Values never begin or end with a quote character
// and never end in a backslash (the property excludes them: the parser
// normalises them by design).
func Val(t *rapid.T, label string, o ValOpts) []byte {
	max := o.MaxLen
	if max == 0 {
		max = 24
	}
	var gen *rapid.Generator[byte]
	if o.SafeOnly {
		gen = rapid.OneOf(rapid.ByteRange(0x23, 0x7e), rapid.SampledFrom([]byte{'/', '.', '-', '_', '=', ':', '!', '\\', '\''}))
	} else {
		gen = rapid.OneOf(
			rapid.ByteRange(0x21, 0x7e),
			rapid.ByteRange(0x01, 0xff),
			rapid.SampledFrom([]byte{' ', '"', '\'', '=', '\\', '/', ':', 0xff, 0x80, '\t', '\n', 0x7f}),
			rapid.ByteRange('a', 'z'),
		)
	}
	b := rapid.SliceOfN(gen, 1, max).Draw(t, label)
	b = append([]byte(nil), b...)
	if (o.MaxLen == 0 || o.MaxLen >= 40) && rapid.IntRange(0, 24).Draw(t, label+"-long") == 0 {
		// the parser states no limit on the length of a value: now and then one around the sizes buffers tend to have
		want := rapid.OneOf(rapid.SampledFrom([]int{63, 64, 65, 127, 128, 129, 255, 256, 257, 511, 512, 1023, 1024, 1025, 4095, 4096, 4097, 8191, 8192, 8193}),
			rapid.IntRange(max, 6000)).Draw(t, label+"-len")
		for n := len(b); len(b) < want; {
			b = append(b, b[:min(n, want-len(b))]...)
		}
	}
	for i := range b {
		if b[i] == 0 {
			b[i] = 1
		}
		if o.NoSingleQuote && b[i] == '\'' {
			b[i] = '_'
		}
		if o.SafeOnly && b[i] == '"' {
			b[i] = '_'
		}
	}
	if c := b[0]; c == '"' || c == '\'' {
		b[0] = 'x'
	}
	if c := b[len(b)-1]; c == '"' || c == '\'' || c == '\\' {
		b[len(b)-1] = 'y'
	}
	return b
}

// Placeholder reports whether a written value is one the parser drops.
func Placeholder(written string) bool {
	switch strings.Trim(written, `'" `) {
	case "", "?", "?,", "(null)":
		return true
	}
	return false
}

// Num draws a decimal number token.
func Num(t *rapid.T, label string, max int) string {
	return strconv.Itoa(rapid.IntRange(0, max).Draw(t, label))
}

// ArchCodes are arch values the kernel prints (hex without 0x).
var ArchCodes = []string{"c000003e", "40000003", "c00000b7", "40000028", "c0000015", "80000016", "14", "8000002b", "deadbeef"}

// Header draws timestamp and sequence.
func Header(t *rapid.T, r *kenc.Rec) {
	r.Sec = rapid.Int64Range(1, 1<<33).Draw(t, "sec")
	r.Ms = rapid.IntRange(0, 999).Draw(t, "ms")
	r.Seq = rapid.Uint32().Draw(t, "seq")
}

func pick[T any](t *rapid.T, label string, xs ...T) T { return rapid.SampledFrom(xs).Draw(t, label) }

// IDs are uid-like values incl. the unset spellings.
func ID(t *rapid.T, label string) string {
	return rapid.OneOf(rapid.Just("0"), rapid.Just("1000"), rapid.Just("4294967295"), rapid.Just("-1"),
		rapid.Map(rapid.Uint32(), func(u uint32) string { return strconv.FormatUint(uint64(u), 10) })).Draw(t, label)
}

// Syscall draws the fields of a SYSCALL (or SECCOMP) record the way
// audit_log_exit / audit_seccomp write them.
func Syscall(t *rapid.T, typ uint16, exe, comm []byte, keys [][]byte) kenc.Rec {
	r := kenc.Rec{Type: typ}
	arch := pick(t, "arch", ArchCodes...)
	// (the kernel prints the number signed: -1 when a tracer or a seccomp filter cancelled the call; x32 calls carry
	// bit 30)
	num := rapid.OneOf(rapid.IntRange(0, 450), rapid.IntRange(0, 5000), rapid.SampledFrom([]int{-1, 1<<30 | 1, -2, 1 << 30, 1<<31 - 1, -1 << 31, 1<<30 | 59})).Draw(t, "syscall")
	if typ == SECCOMP {
		r.Fields = append(r.Fields, kenc.P("auid", ID(t, "auid")), kenc.P("uid", ID(t, "uid")), kenc.P("gid", ID(t, "gid")),
			kenc.P("ses", ID(t, "ses")), kenc.P("pid", Num(t, "pid", 99999)), kenc.U("comm", string(comm)), kenc.U("exe", string(exe)),
			kenc.P("sig", Num(t, "sig", 70)), kenc.P("arch", arch), kenc.P("syscall", strconv.Itoa(num)), kenc.P("compat", "0"),
			kenc.P("ip", "0x7f"+Num(t, "ip", 99999)), kenc.P("code", "0x"+Num(t, "code", 99999)))
		return r
	}
	exit := rapid.OneOf(rapid.IntRange(-140, 5), rapid.SampledFrom([]int{0, -1, -2, -13, -4095, -4096, 1 << 20, -133, -134})).Draw(t, "exit")
	r.Fields = append(r.Fields, kenc.P("arch", arch), kenc.P("syscall", strconv.Itoa(num)))
	if rapid.IntRange(0, 9).Draw(t, "per") == 0 {
		r.Fields = append(r.Fields, kenc.P("per", "400000"))
	}
	r.Fields = append(r.Fields, kenc.P("success", pick(t, "success", "yes", "no")), kenc.P("exit", strconv.Itoa(exit)))
	for i := 0; i < 4; i++ {
		r.Fields = append(r.Fields, kenc.P("a"+strconv.Itoa(i), strconv.FormatUint(uint64(rapid.Uint32().Draw(t, "a")), 16)))
	}
	r.Fields = append(r.Fields, kenc.P("items", Num(t, "items", 4)), kenc.P("ppid", Num(t, "ppid", 99999)), kenc.P("pid", Num(t, "pid", 99999)),
		kenc.P("auid", ID(t, "auid")))
	for _, k := range []string{"uid", "gid", "euid", "suid", "fsuid", "egid", "sgid", "fsgid"} {
		r.Fields = append(r.Fields, kenc.P(k, ID(t, k)))
	}
	r.Fields = append(r.Fields, kenc.P("tty", pick(t, "tty", "pts0", "(none)", "tty1")), kenc.P("ses", ID(t, "ses")),
		kenc.U("comm", string(comm)))
	if exe == nil {
		r.Fields = append(r.Fields, kenc.P("exe", "(null)")) // kernel threads
	} else {
		r.Fields = append(r.Fields, kenc.U("exe", string(exe)))
	}
	switch {
	case keys == nil:
		r.Fields = append(r.Fields, kenc.P("key", "(null)"))
	default:
		var joined []byte
		for i, k := range keys {
			if i > 0 {
				joined = append(joined, 1)
			}
			joined = append(joined, k...)
		}
		r.Fields = append(r.Fields, kenc.F{K: "key", V: joined, Enc: kenc.Untrusted})
	}
	return r
}

// Path draws a PATH record (audit_log_name).
func Path(t *rapid.T, item int, name []byte, mode uint32) kenc.Rec {
	r := kenc.Rec{Type: PATH}
	r.Fields = append(r.Fields, kenc.P("item", strconv.Itoa(item)))
	if name == nil {
		r.Fields = append(r.Fields, kenc.P("name", "(null)"))
	} else {
		r.Fields = append(r.Fields, kenc.U("name", string(name)))
	}
	r.Fields = append(r.Fields, kenc.P("inode", Num(t, "inode", 1<<30)),
		kenc.P("dev", fmt.Sprintf("%02x:%02x", rapid.IntRange(0, 255).Draw(t, "maj"), rapid.IntRange(0, 255).Draw(t, "min"))),
		kenc.P("mode", fmt.Sprintf("%#o", mode)), kenc.P("ouid", ID(t, "ouid")), kenc.P("ogid", ID(t, "ogid")),
		kenc.P("rdev", fmt.Sprintf("%02x:%02x", rapid.IntRange(0, 255).Draw(t, "rmaj"), rapid.IntRange(0, 255).Draw(t, "rmin"))),
		kenc.P("nametype", pick(t, "nametype", "NORMAL", "PARENT", "CREATE", "DELETE", "UNKNOWN")),
		kenc.P("cap_fp", "0"), kenc.P("cap_fi", "0"), kenc.P("cap_fe", "0"), kenc.P("cap_fver", "0"), kenc.P("cap_frootid", "0"))
	return r
}

// Sockaddr draws a SOCKADDR record and returns the expected decoded fields.
func Sockaddr(t *rapid.T) (kenc.Rec, map[string]string) {
	r := kenc.Rec{Type: SOCKADDR}
	want := map[string]string{}
	var b []byte
	switch rapid.IntRange(0, 4).Draw(t, "family") {
	case 0:
		var ip [4]byte
		copy(ip[:], rapid.SliceOfN(rapid.Byte(), 4, 4).Draw(t, "ip4"))
		var pad [8]byte
		copy(pad[:], rapid.SliceOfN(rapid.Byte(), 8, 8).Draw(t, "pad"))
		port := rapid.OneOf(rapid.Uint16(), rapid.SampledFrom([]uint16{0, 1, 22, 80, 255, 256, 32767, 32768, 65535})).Draw(t, "port")
		b = kenc.SockaddrInet(ip, port, pad)
		switch rapid.IntRange(0, 5).Draw(t, "ip4tail") {
		case 0:
			b = append(b, rapid.SliceOfN(rapid.Byte(), 1, 112).Draw(t, "ip4garbage")...) // a caller's larger buffer (sockaddr_storage)
		case 1:
			// the record carries as many bytes as the caller passed (also for a call that fails because of that):
			// family, port and address are complete from 8 bytes on, sin_zero may be cut anywhere
			b = b[:rapid.SampledFrom([]int{8, 8, 9, 12, 15}).Draw(t, "ip4cut")]
		}
		want["family"], want["addr"], want["port"] = "ipv4", fmt.Sprintf("%d.%d.%d.%d", ip[0], ip[1], ip[2], ip[3]), strconv.Itoa(int(port))
	case 1:
		var ip [16]byte
		copy(ip[:], rapid.SliceOfN(rapid.Byte(), 16, 16).Draw(t, "ip6"))
		switch rapid.IntRange(0, 7).Draw(t, "ip6kind") {
		case 6, 7:
			// addresses of the ranges code tends to treat specially: link-local, unique-local, multicast, 6to4, NAT64
			pre := rapid.SampledFrom([][]byte{{0xfe, 0x80}, {0xfe, 0x80, 0, 0, 0, 0, 0, 0}, {0xfc, 0x00}, {0xfd, 0x12}, {0xff, 0x02}, {0xff, 0x05}, {0x20, 0x02}, {0x00, 0x64, 0xff, 0x9b}, {0xfe, 0xc0}}).Draw(t, "ip6prefix")
			copy(ip[:], pre)
			if len(pre) == 8 {
				copy(ip[8:], []byte{0, 0, 0, 0, 0, 0, 0, 1})
			}
		case 0:
			ip = [16]byte{15: 1}
		case 1:
			ip = [16]byte{10: 0xff, 11: 0xff, 12: ip[12], 13: ip[13], 14: ip[14], 15: ip[15]} // v4-mapped
		case 2:
			ip = [16]byte{}
		}
		port := rapid.Uint16().Draw(t, "port")
		flow := rapid.Uint32Range(0, 1<<28-1).Draw(t, "flow") // flowinfo is 28 bits wide
		scope := rapid.Uint32().Draw(t, "scope")
		b = kenc.SockaddrInet6(ip, port, flow, scope)
		// the record carries the bytes the caller passed: the kernel takes an IPv6 address from 24 bytes on
		// (the RFC 2133 form without sin6_scope_id), and callers pass larger buffers too
		switch rapid.IntRange(0, 5).Draw(t, "ip6len") {
		case 0:
			b = b[:24]
		case 1:
			b = b[:rapid.IntRange(25, 27).Draw(t, "ip6cut")]
		case 2:
			b = append(b, rapid.SliceOfN(rapid.Byte(), 1, 100).Draw(t, "ip6tail")...)
		}
		want["family"], want["addr"], want["port"] = "ipv6", "IP6:"+kenc.Hex(ip[:]), strconv.Itoa(int(port))
	case 2:
		if k := rapid.IntRange(0, 4).Draw(t, "unixkind"); k < 2 {
			// an unnamed socket (just the family, possibly followed by the zeroed rest of the caller's buffer)
			// and an abstract one (a name that starts with a NUL byte): only the family is asserted
			b = []byte{1, 0}
			if k == 1 {
				b = append(append(b, 0), Val(t, "abstractname", ValOpts{MaxLen: 30})...)
			}
			b = append(b, make([]byte, rapid.SampledFrom([]int{0, 0, 1, 2, 14, 108}).Draw(t, "unixzeros"))...)
			want["family"] = "unix"
			break
		}
		p := Val(t, "unixpath", ValOpts{MaxLen: 40})
		if p[0] == 0 {
			p[0] = '/'
		}
		junk := rapid.SliceOfN(rapid.Byte(), 0, 8).Draw(t, "junk")
		b = kenc.SockaddrUnix(p, junk)
		want["family"], want["path"] = "unix", string(p)
	case 3:
		b = append([]byte{16, 0, 0, 0}, rapid.SliceOfN(rapid.Byte(), 8, 8).Draw(t, "nl")...)
		want["family"], want["saddr"] = "netlink", kenc.Hex(b)
	default:
		fam := rapid.SampledFrom([]byte{0, 3, 17, 40, 255}).Draw(t, "fam")
		b = append([]byte{fam, 0}, rapid.SliceOfN(rapid.Byte(), 2, 14).Draw(t, "raw")...)
		want["family"], want["saddr"] = strconv.Itoa(int(fam)), kenc.Hex(b)
	}
	r.Fields = []kenc.F{{K: "saddr", V: b, Enc: kenc.HexAlways}}
	return r, want
}

// Execve draws an EXECVE record. Arguments are never whole placeholders (the
// property itself says placeholders are dropped).
func Execve(t *rapid.T, max int) kenc.Rec {
	n := rapid.IntRange(1, max).Draw(t, "argc")
	if rapid.IntRange(0, 19).Draw(t, "manyargs") == 0 {
		n = rapid.SampledFrom([]int{65, 64, 101, 129, 257, 1025, 1001}).Draw(t, "argcmany") // three- and four-digit argument keys
	}
	var args [][]byte
	for i := 0; i < n; i++ {
		v := Val(t, "arg", ValOpts{})
		if Placeholder(string(v)) {
			v = append([]byte("z"), v...)
		}
		args = append(args, v)
	}
	return kenc.Rec{Type: EXECVE, Fields: kenc.Execve(args)}
}

// Proctitle draws a PROCTITLE record (NUL-joined command line, untrusted-string
// encoded) and returns the expected decoded title.
func Proctitle(t *rapid.T) (kenc.Rec, string) {
	n := rapid.IntRange(1, 5).Draw(t, "nargs")
	var parts []string
	for i := 0; i < n; i++ {
		if i > 0 && rapid.IntRange(0, 4).Draw(t, "emptyarg") == 0 {
			parts = append(parts, "") // an empty argv element: two NULs in a row (or a trailing NUL)
			continue
		}
		parts = append(parts, string(Val(t, "ptarg", ValOpts{MaxLen: 12})))
	}
	raw := strings.Join(parts, "\x00")
	if n == 1 && Placeholder(raw) {
		raw = "p" + raw
		parts[0] = raw
	}
	return kenc.Rec{Type: PROCTITLE, Fields: []kenc.F{kenc.U("proctitle", raw)}}, strings.Join(parts, " ")
}

// UserCmd draws a USER_CMD record as sudo writes it.
func UserCmd(t *rapid.T) kenc.Rec {
	o := ValOpts{NoSingleQuote: true}
	return kenc.Rec{Type: USER_CMD,
		Fields: []kenc.F{kenc.P("pid", Num(t, "pid", 99999)), kenc.P("uid", ID(t, "uid")), kenc.P("auid", ID(t, "auid")), kenc.P("ses", ID(t, "ses"))},
		User: []kenc.F{kenc.U("cwd", string(Val(t, "cwd", o))), kenc.U("cmd", string(Val(t, "cmd", o))),
			kenc.P("terminal", pick(t, "terminal", "pts/0", "?", "tty1")), kenc.P("res", pick(t, "res", "success", "failed"))}}
}

// Tty draws a TTY (kernel) or USER_TTY record.
func Tty(t *rapid.T, user bool) kenc.Rec {
	data := Val(t, "ttydata", ValOpts{MaxLen: 40})
	if user {
		return kenc.Rec{Type: USER_TTY,
			Fields: []kenc.F{kenc.P("pid", Num(t, "pid", 99999)), kenc.P("uid", ID(t, "uid")), kenc.P("auid", ID(t, "auid")), kenc.P("ses", ID(t, "ses"))},
			User:   []kenc.F{kenc.T("tty"), kenc.P("minor", "0"), kenc.H("data", string(data))}}
	}
	return kenc.Rec{Type: TTY, Fields: []kenc.F{kenc.T("tty"), kenc.P("pid", Num(t, "pid", 99999)), kenc.P("uid", ID(t, "uid")),
		kenc.P("auid", ID(t, "auid")), kenc.P("ses", ID(t, "ses")), kenc.P("major", "136"), kenc.P("minor", Num(t, "minor", 9)),
		kenc.Q("comm", "bash"), kenc.H("data", string(data))}}
}

// UserRecord draws a generic user-space record (USER_AUTH, USER_ACCT, CRED_ACQ,
// SERVICE_START, …) with a msg='…' payload.
func UserRecord(t *rapid.T, typ uint16) kenc.Rec {
	o := ValOpts{NoSingleQuote: true, SafeOnly: true, MaxLen: 12}
	if ((typ == CRED_DISP || typ == USER_START || typ == USER_END) && rapid.Bool().Draw(t, "oldpam")) || rapid.IntRange(0, 4).Draw(t, "oldpamother") == 0 {
		// the form pam wrote up to RHEL 6, which the parser unwraps for exactly these three record types; for the
		// other types (USER_ACCT, CRED_ACQ, USER_AUTH, USER_LOGIN ...) the text stays as it is, and the last value
		// — the result — carries the closing parenthesis: success) is a success all the same
		host, addr := pick(t, "oldhost", "?", "host1"), pick(t, "oldaddr", "?", "10.0.0.1")
		return kenc.Rec{Type: typ,
			Fields: []kenc.F{kenc.T("user"), kenc.P("pid", Num(t, "pid", 99999)), kenc.P("uid", ID(t, "uid")), kenc.P("auid", ID(t, "auid")), kenc.P("ses", ID(t, "ses"))},
			User: []kenc.F{kenc.T("PAM: " + pick(t, "pamop", "session open", "session close", "setcred")), kenc.Q("acct", string(Val(t, "acct", o))), kenc.T(":"),
				kenc.Q("exe", "/usr/sbin/"+string(Val(t, "uexe", ValOpts{SafeOnly: true, NoSingleQuote: true, MaxLen: 8}))),
				kenc.T("(hostname=" + host + ","), kenc.T("addr=" + addr + ","), kenc.P("terminal", pick(t, "terminal", "cron", "ssh", "/dev/pts/0")),
				kenc.P("res", pick(t, "res", "success", "failed"))},
			UserClose: ")'"}
	}
	return kenc.Rec{Type: typ,
		Fields: []kenc.F{kenc.P("pid", Num(t, "pid", 99999)), kenc.P("uid", ID(t, "uid")), kenc.P("auid", ID(t, "auid")), kenc.P("ses", ID(t, "ses"))},
		User: []kenc.F{kenc.P("op", pick(t, "op", "PAM:authentication", "login", "start")), kenc.Q("acct", string(Val(t, "acct", o))),
			kenc.Q("exe", "/usr/sbin/"+string(Val(t, "uexe", ValOpts{SafeOnly: true, NoSingleQuote: true, MaxLen: 8}))),
			kenc.P("hostname", pick(t, "hostname", "?", "host1", "10.0.0.1")), kenc.P("addr", pick(t, "addr", "?", "10.0.0.1", "::1")),
			kenc.P("terminal", pick(t, "terminal", "ssh", "?", "/dev/pts/0")), kenc.P("res", pick(t, "res", "success", "failed", "1", "0"))}}
}
