// Package hx is the shared harness of the verification machinery: it runs a
// property over generated cases (pgregory.net/rapid) or enumerated cases,
// records what was covered (evaluations, distinct non-trivial cases, class
// histogram, samples), recognises known findings, and writes replay files for
// failures. One evidence fragment is written per test process; check.py merges
// the fragments of all stages/shards into /verif/evidence/<id>.json.
package hx

import (
	"bufio"
	"encoding/binary"
	"encoding/json"
	"fmt"
	"hash/fnv"
	"os"
	"path/filepath"
	"runtime/debug"
	"runtime/pprof"
	"sort"
	"strconv"
	"strings"
	"sync"
	"syscall"
	"testing"
	"time"

	"pgregory.net/rapid"
)

// Root is the directory of the verification machinery (where known_findings.txt
// and regress/ live). It is taken from VERIF_ROOT and defaults to /verif.
func Root() string {
	if r := os.Getenv("VERIF_ROOT"); r != "" {
		return r
	}
	return "/verif"
}

// Tier returns "quick" or "thorough".
func Tier() string {
	if os.Getenv("VERIF_TIER") == "thorough" {
		return "thorough"
	}
	return "quick"
}

// Thorough reports whether the thorough tier is running.
func Thorough() bool { return Tier() == "thorough" }

// Seed returns the PRNG seed of this process (never 0).
func Seed() uint64 {
	s, _ := strconv.ParseUint(os.Getenv("VERIF_SEED_EFF"), 10, 64)
	if s == 0 {
		s = 1
	}
	return s
}

// Shard returns the index and number of shards of this process.
func Shard() (int, int) {
	i, _ := strconv.Atoi(os.Getenv("VERIF_SHARD"))
	n, _ := strconv.Atoi(os.Getenv("VERIF_NSHARDS"))
	if n <= 0 {
		n = 1
	}
	return i, n
}

// EnvInt reads an integer parameter passed by check.py.
func EnvInt(name string, def int) int {
	if v, err := strconv.Atoi(os.Getenv(name)); err == nil {
		return v
	}
	return def
}

const (
	maxFingerprints = 2 << 20
	maxSampleLen    = 1500
	firstSamples    = 3
	reservoirSize   = 5
)

// H collects coverage for one property in one test process.
type H struct {
	ID   string
	Rule string

	mu          sync.Mutex
	evals       int64
	nontrivial  map[uint64]struct{}
	ntTotal     int64
	capped      bool
	classes     map[string]int64
	samples     []string
	reservoir   []string
	seenNT      int64
	known       map[string]int64 // known-finding key -> hits
	knownDetail map[string]string
	excluded    int64
	exhaustive  bool
	extra       map[string]any
	violations  int64
	lcg         uint64
}

var (
	regMu    sync.Mutex
	registry []*H
)

// New creates (and registers for flushing) the recorder of a property.
func New(id, rule string) *H {
	h := &H{
		ID: id, Rule: rule,
		nontrivial:  map[uint64]struct{}{},
		classes:     map[string]int64{},
		known:       map[string]int64{},
		knownDetail: map[string]string{},
		extra:       map[string]any{},
		lcg:         Seed()*6364136223846793005 + 1442695040888963407,
	}
	regMu.Lock()
	registry = append(registry, h)
	regMu.Unlock()
	return h
}

// Eval counts one evaluation of the property.
func (h *H) Eval() { h.mu.Lock(); h.evals++; h.mu.Unlock() }

// EvalN counts n evaluations.
func (h *H) EvalN(n int) { h.mu.Lock(); h.evals += int64(n); h.mu.Unlock() }

// Class adds one to a class of the histogram.
func (h *H) Class(name string) { h.mu.Lock(); h.classes[name]++; h.mu.Unlock() }

// ClassN adds n to a class of the histogram.
func (h *H) ClassN(name string, n int) { h.mu.Lock(); h.classes[name] += int64(n); h.mu.Unlock() }

// SetExhaustive marks the run as a complete enumeration of a finite space.
func (h *H) SetExhaustive() { h.mu.Lock(); h.exhaustive = true; h.mu.Unlock() }

// Extra stores an additional key of the coverage object.
func (h *H) Extra(key string, v any) { h.mu.Lock(); h.extra[key] = v; h.mu.Unlock() }

// FP returns a 64-bit fingerprint of the parts.
func FP(parts ...any) uint64 {
	f := fnv.New64a()
	for _, p := range parts {
		switch v := p.(type) {
		case string:
			f.Write([]byte(v))
		case []byte:
			f.Write(v)
		default:
			fmt.Fprintf(f, "%v", v)
		}
		f.Write([]byte{0})
	}
	return f.Sum64()
}

// NonTrivial records a case that is non-trivial by the property's rule. sample
// is only rendered when the case is kept as a sample.
func (h *H) NonTrivial(fp uint64, sample func() string) {
	h.mu.Lock()
	defer h.mu.Unlock()
	h.ntTotal++
	if _, dup := h.nontrivial[fp]; dup {
		return
	}
	if len(h.nontrivial) >= maxFingerprints {
		h.capped = true
		return
	}
	h.nontrivial[fp] = struct{}{}
	if sample == nil {
		return
	}
	h.seenNT++
	if len(h.samples) < firstSamples {
		h.samples = append(h.samples, clip(sample()))
		return
	}
	// reservoir over the later cases (deterministic LCG, seeded by VERIF_SEED)
	h.lcg = h.lcg*6364136223846793005 + 1442695040888963407
	if len(h.reservoir) < reservoirSize {
		h.reservoir = append(h.reservoir, clip(sample()))
	} else if j := (h.lcg >> 33) % uint64(h.seenNT-firstSamples); j < reservoirSize {
		h.reservoir[j] = clip(sample())
	}
}

func clip(s string) string {
	if len(s) > maxSampleLen {
		return s[:maxSampleLen] + fmt.Sprintf("…(+%d bytes)", len(s)-maxSampleLen)
	}
	return s
}

// ---------------------------------------------------------------------------
// Known findings

type knownEntry struct{ prop, key, text string }

var (
	knownOnce sync.Once
	knownList []knownEntry
)

func loadKnown() {
	f, err := os.Open(filepath.Join(Root(), "known_findings.txt"))
	if err != nil {
		return
	}
	defer f.Close()
	sc := bufio.NewScanner(f)
	for sc.Scan() {
		line := strings.TrimSpace(sc.Text())
		if !strings.HasPrefix(line, "known:") {
			continue // "fixed:" lines and comments suppress nothing
		}
		var e knownEntry
		rest := strings.Fields(strings.TrimPrefix(line, "known:"))
		var text []string
		for _, w := range rest {
			switch {
			case strings.HasPrefix(w, "property=") && e.prop == "":
				e.prop = strings.TrimPrefix(w, "property=")
			case strings.HasPrefix(w, "key=") && e.key == "":
				e.key = strings.TrimPrefix(w, "key=")
			default:
				text = append(text, w)
			}
		}
		e.text = strings.Join(text, " ")
		if e.prop != "" && e.key != "" {
			knownList = append(knownList, e)
		}
	}
}

// Known reports whether a deviation with the given key is a listed known
// finding of this property. If it is, the hit is counted (and excluded from the
// search); if it is not, the caller must report a violation.
func (h *H) Known(key, detail string) bool {
	knownOnce.Do(loadKnown)
	for _, e := range knownList {
		if e.prop == h.ID && e.key == key {
			h.mu.Lock()
			h.known[key]++
			h.excluded++
			if _, ok := h.knownDetail[key]; !ok {
				h.knownDetail[key] = clip(e.text + " — first seen: " + detail)
			}
			h.mu.Unlock()
			return true
		}
	}
	return false
}

// ---------------------------------------------------------------------------
// Fragments

type fragment struct {
	PropertyID  string            `json:"property_id"`
	Rule        string            `json:"rule"`
	Evaluations int64             `json:"evaluations"`
	NTTotal     int64             `json:"nontrivial_total"`
	FPFile      string            `json:"fp_file"`
	FPCount     int               `json:"fp_count"`
	Capped      bool              `json:"capped"`
	Classes     map[string]int64  `json:"classes"`
	Samples     []string          `json:"samples"`
	Known       map[string]int64  `json:"known"`
	KnownDetail map[string]string `json:"known_detail"`
	Excluded    int64             `json:"excluded"`
	Exhaustive  bool              `json:"exhaustive"`
	Extra       map[string]any    `json:"extra"`
	Violations  int64             `json:"violations"`
}

// Flush writes the fragments of all recorders of this process into
// $VERIF_EV_DIR (no-op when unset). It is called from TestMain.
func Flush() {
	dir := os.Getenv("VERIF_EV_DIR")
	regMu.Lock()
	hs := append([]*H(nil), registry...)
	regMu.Unlock()
	for i, h := range hs {
		h.mu.Lock()
		for k, n := range h.known {
			fmt.Printf("KNOWN-FINDING: property=%s key=%s hits=%d %s\n", h.ID, k, n, oneLine(h.knownDetail[k]))
		}
		if dir == "" || (h.evals == 0 && len(h.nontrivial) == 0) {
			h.mu.Unlock()
			continue
		}
		base := fmt.Sprintf("%s-%d-%d", h.ID, os.Getpid(), i)
		fps := make([]uint64, 0, len(h.nontrivial))
		for fp := range h.nontrivial {
			fps = append(fps, fp)
		}
		sort.Slice(fps, func(a, b int) bool { return fps[a] < fps[b] })
		buf := make([]byte, 8*len(fps))
		for j, fp := range fps {
			binary.LittleEndian.PutUint64(buf[8*j:], fp)
		}
		fpFile := filepath.Join(dir, base+".fp")
		_ = os.WriteFile(fpFile, buf, 0o644)
		fr := fragment{
			PropertyID: h.ID, Rule: h.Rule, Evaluations: h.evals, NTTotal: h.ntTotal,
			FPFile: fpFile, FPCount: len(fps), Capped: h.capped, Classes: h.classes,
			Samples: append(append([]string(nil), h.samples...), h.reservoir...),
			Known:   h.known, KnownDetail: h.knownDetail, Excluded: h.excluded,
			Exhaustive: h.exhaustive, Extra: h.extra, Violations: h.violations,
		}
		b, _ := json.Marshal(fr)
		_ = os.WriteFile(filepath.Join(dir, base+".frag.json"), b, 0o644)
		h.mu.Unlock()
	}
}

func oneLine(s string) string {
	s = strings.ReplaceAll(s, "\n", " ")
	s = strings.ReplaceAll(s, "\r", " ")
	return s
}

// Main is the TestMain body shared by all property packages.
func Main(m *testing.M) {
	EnableCrashFile()
	// rapid replays testdata/rapid/*.fail first; every run must be a pure
	// function of the code and the seed.
	_ = os.RemoveAll("testdata/rapid")
	code := m.Run()
	Flush()
	os.Exit(code)
}

// ---------------------------------------------------------------------------
// Replay files and runners

// ReplayFile is the on-disk form of a failing (or regression) case.
type ReplayFile struct {
	Property string          `json:"property"`
	Test     string          `json:"test"`
	Why      string          `json:"why,omitempty"`
	Text     string          `json:"text,omitempty"`
	Case     json.RawMessage `json:"case"`
}

func replayDir() string {
	if d := os.Getenv("VERIF_REPLAY_DIR"); d != "" {
		return d
	}
	return filepath.Join(Root(), "replays")
}

// SaveReplay writes the failing case; the last write of a shrinking run is the
// minimal case. The file name is fixed per (property, test, seed) so that the
// driver can point at it.
func (h *H) SaveReplay(test string, c any, why string) string {
	h.mu.Lock()
	h.violations++
	h.mu.Unlock()
	raw, err := json.Marshal(c)
	if err != nil {
		raw, _ = json.Marshal(fmt.Sprintf("%+v", c))
	}
	text := ""
	if d, ok := c.(interface{ Describe() string }); ok {
		text = d.Describe()
	}
	rf := ReplayFile{Property: h.ID, Test: test, Why: why, Text: text, Case: raw}
	b, _ := json.MarshalIndent(rf, "", " ")
	_ = os.MkdirAll(replayDir(), 0o755)
	p := filepath.Join(replayDir(), fmt.Sprintf("%s-%s-seed%d.case.json", h.ID, test, Seed()))
	_ = os.WriteFile(p, b, 0o644)
	return p
}

// caseLimit: no generated case of any property takes longer than a few hundred milliseconds (the longest
// sleep a few milliseconds at a time); two minutes means "never".
const caseLimit = 120 * time.Second

// Prop is a property over a case: it returns nil if the property holds.
type Prop[C any] func(c C) error

// guard runs prop and turns a panic of the code under test into an error.
func guard[C any](prop Prop[C], c C) (err error) {
	defer func() {
		if r := recover(); r != nil {
			err = fmt.Errorf("panic: %v\n%s", r, debug.Stack())
		}
	}()
	return prop(c)
}

// Guard runs prop on one case and turns a panic into an error (for sweeps that
// do not go through Check / Enumerate).
func Guard[C any](prop Prop[C], c C) error { return guard(prop, c) }

// Check runs prop over cases drawn by gen. The number of cases and the seed come
// from rapid's flags, which check.py sets. A failing case is shrunk by rapid and
// the minimal case is saved as a replay file.
func Check[C any](t *testing.T, h *H, test string, gen func(*rapid.T) C, prop Prop[C]) {
	t.Helper()
	rapid.Check(t, func(rt *rapid.T) {
		c := gen(rt)
		h.Eval()
		// every case runs under the hang watchdog and is noted in the crash file: code that never returns or
		// takes the process down is reported with the case, not as a stage that timed out
		h.BeginLimit(test, c, caseLimit)
		err := guard(prop, c)
		h.End()
		if err != nil {
			p := h.SaveReplay(test, c, err.Error())
			rt.Fatalf("VERIF-VIOLATION property=%s case=%s\n%v", h.ID, p, err)
		}
	})
}

// Regress replays, without rapid, the saved cases of regress/<ID>/<test>*.json
// and the file named by VERIF_REPLAY_CASE (when it belongs to this test).
func Regress[C any](t *testing.T, h *H, test string, prop Prop[C]) {
	t.Helper()
	files, _ := filepath.Glob(filepath.Join(Root(), "regress", h.ID, "*.json"))
	sort.Strings(files)
	if rc := os.Getenv("VERIF_REPLAY_CASE"); rc != "" {
		files = []string{rc}
	}
	for _, f := range files {
		b, err := os.ReadFile(f)
		if err != nil {
			t.Fatalf("cannot read %s: %v", f, err)
		}
		var rf ReplayFile
		if err := json.Unmarshal(b, &rf); err != nil {
			t.Fatalf("bad replay file %s: %v", f, err)
		}
		if rf.Test != test || rf.Property != h.ID {
			continue
		}
		var c C
		if err := json.Unmarshal(rf.Case, &c); err != nil {
			t.Fatalf("bad case in %s: %v", f, err)
		}
		h.Eval()
		h.Class("regress-case")
		h.BeginLimit(test, c, caseLimit)
		err = guard(prop, c)
		h.End()
		if err != nil {
			h.mu.Lock()
			h.violations++
			h.mu.Unlock()
			t.Errorf("VERIF-VIOLATION property=%s case=%s\n%v", h.ID, f, err)
		}
	}
}

// Enumerate runs prop over an explicit list of cases (bounded-exhaustive
// stages). The first failing case is saved and reported.
func Enumerate[C any](t *testing.T, h *H, test string, n int, at func(i int) C, prop Prop[C]) {
	t.Helper()
	for i := 0; i < n; i++ {
		c := at(i)
		h.Eval()
		if err := guard(prop, c); err != nil {
			p := h.SaveReplay(test, c, err.Error())
			t.Fatalf("VERIF-VIOLATION property=%s case=%s\n%v", h.ID, p, err)
		}
	}
}

// ---------------------------------------------------------------------------
// Hang watchdog: totality properties mark the case in progress; a background
// goroutine reports a violation (and ends the process) when one case runs for
// longer than the limit. The limit is tens of seconds for microsecond work.

var (
	watchMu    sync.Mutex
	watchStart time.Time
	watchCase  any
	watchH     *H
	watchLimit time.Duration
	watchTest  string
	watchOnce  sync.Once
)

// Crash file: a process that dies from a fatal runtime error (out of memory,
// stack overflow, concurrent map writes) cannot report the case it was running.
// Totality checks therefore copy every case, before running it, into a small
// shared memory mapping backed by a file in the run directory; the driver turns
// the file of a dead worker into the replay artefact.
var crashMap []byte

// EnableCrashFile maps $VERIF_RUN_DIR/crash-<pid>.case.json (no-op when unset).
func EnableCrashFile() {
	dir := os.Getenv("VERIF_RUN_DIR")
	if dir == "" {
		return
	}
	f, err := os.OpenFile(filepath.Join(dir, fmt.Sprintf("crash-%d.case.json", os.Getpid())), os.O_RDWR|os.O_CREATE|os.O_TRUNC, 0o644)
	if err != nil {
		return
	}
	defer f.Close()
	const size = 1 << 20
	if f.Truncate(size) != nil {
		return
	}
	if m, err := syscall.Mmap(int(f.Fd()), 0, size, syscall.PROT_READ|syscall.PROT_WRITE, syscall.MAP_SHARED); err == nil {
		crashMap = m
	}
}

func noteCrashCase(h *H, test string, c any) {
	if crashMap == nil {
		return
	}
	raw, err := json.Marshal(c)
	if err != nil {
		return
	}
	b, _ := json.Marshal(ReplayFile{Property: h.ID, Test: test, Why: "the worker process died while running this case", Case: raw})
	if len(b)+1 > len(crashMap) {
		return
	}
	n := copy(crashMap, b)
	crashMap[n] = 0
}

// Begin marks the start of a case of a totality property.
func (h *H) Begin(test string, c any) { h.BeginLimit(test, c, 0) }

// BeginLimit is Begin with its own limit (0 = $VERIF_HANG_S, default 30 s): stress rounds that normally take
// milliseconds but may be starved when the machine is busy get a wider one. A round that is still not over
// then is reported as a hang (deadlock) together with a dump of all goroutines.
func (h *H) BeginLimit(test string, c any, limit time.Duration) {
	watchOnce.Do(func() { go watchdog() })
	noteCrashCase(h, test, c)
	watchMu.Lock()
	watchStart, watchCase, watchH, watchTest, watchLimit = time.Now(), c, h, test, limit
	watchMu.Unlock()
}

// End marks the end of the case.
func (h *H) End() {
	if crashMap != nil {
		crashMap[0] = 0
	}
	watchMu.Lock()
	watchCase, watchH = nil, nil
	watchMu.Unlock()
}

func watchdog() {
	deflt := time.Duration(EnvInt("VERIF_HANG_S", 30)) * time.Second
	for {
		time.Sleep(500 * time.Millisecond)
		watchMu.Lock()
		h, c, test, start, limit := watchH, watchCase, watchTest, watchStart, watchLimit
		watchMu.Unlock()
		if limit == 0 {
			limit = deflt
		}
		if h != nil && time.Since(start) > limit {
			p := h.SaveReplay(test, c, fmt.Sprintf("case did not finish within %v (hang)", limit))
			fmt.Printf("VERIF-VIOLATION property=%s case=%s\ncase did not finish within %v\n", h.ID, p, limit)
			_ = pprof.Lookup("goroutine").WriteTo(os.Stdout, 1)
			Flush()
			os.Exit(1)
		}
	}
}

// Fail reports a violation found outside Check/Enumerate (stress stages).
func (h *H) Fail(t *testing.T, test string, c any, format string, args ...any) {
	t.Helper()
	why := fmt.Sprintf(format, args...)
	p := h.SaveReplay(test, c, why)
	t.Fatalf("VERIF-VIOLATION property=%s case=%s\n%s", h.ID, p, why)
}
