// Package rulegen generates auditctl-style rules by construction — every leaf of
// the grammar carries the wire value it is meant to produce — renders them as
// rule.Rule structs and as flag lines, and decodes struct audit_rule_data at
// fixed UAPI offsets with constants from the kernel header snapshot. Nothing
// here uses package rule's tables.
package rulegen

import (
	"encoding/binary"
	"fmt"
	"os"
	"path/filepath"
	"sort"
	"strconv"
	"strings"
	"unicode"
	"unicode/utf8"

	"github.com/elastic/go-libaudit/v2/rule"
	"pgregory.net/rapid"

	"verif/internal/uapi"
)

// ---------------------------------------------------------------------------
// name -> UAPI constant name (written from auditctl's documentation)

var FieldConst = map[string]string{
	"pid": "AUDIT_PID", "uid": "AUDIT_UID", "euid": "AUDIT_EUID", "suid": "AUDIT_SUID", "fsuid": "AUDIT_FSUID",
	"gid": "AUDIT_GID", "egid": "AUDIT_EGID", "sgid": "AUDIT_SGID", "fsgid": "AUDIT_FSGID", "auid": "AUDIT_LOGINUID",
	"pers": "AUDIT_PERS", "arch": "AUDIT_ARCH", "msgtype": "AUDIT_MSGTYPE", "subj_user": "AUDIT_SUBJ_USER",
	"subj_role": "AUDIT_SUBJ_ROLE", "subj_type": "AUDIT_SUBJ_TYPE", "subj_sen": "AUDIT_SUBJ_SEN", "subj_clr": "AUDIT_SUBJ_CLR",
	"ppid": "AUDIT_PPID", "obj_user": "AUDIT_OBJ_USER", "obj_role": "AUDIT_OBJ_ROLE", "obj_type": "AUDIT_OBJ_TYPE",
	"obj_lev_low": "AUDIT_OBJ_LEV_LOW", "obj_lev_high": "AUDIT_OBJ_LEV_HIGH", "devmajor": "AUDIT_DEVMAJOR",
	"devminor": "AUDIT_DEVMINOR", "inode": "AUDIT_INODE", "exit": "AUDIT_EXIT", "success": "AUDIT_SUCCESS",
	"path": "AUDIT_WATCH", "perm": "AUDIT_PERM", "dir": "AUDIT_DIR", "filetype": "AUDIT_FILETYPE", "obj_uid": "AUDIT_OBJ_UID",
	"obj_gid": "AUDIT_OBJ_GID", "exe": "AUDIT_EXE", "saddr_fam": "AUDIT_SADDR_FAM", "a0": "AUDIT_ARG0", "a1": "AUDIT_ARG1",
	"a2": "AUDIT_ARG2", "a3": "AUDIT_ARG3", "key": "AUDIT_FILTERKEY",
}

var OpConst = map[string]string{
	"=": "AUDIT_EQUAL", "!=": "AUDIT_NOT_EQUAL", "<": "AUDIT_LESS_THAN", ">": "AUDIT_GREATER_THAN",
	"<=": "AUDIT_LESS_THAN_OR_EQUAL", ">=": "AUDIT_GREATER_THAN_OR_EQUAL", "&": "AUDIT_BIT_MASK", "&=": "AUDIT_BIT_TEST",
}

var AllOps = []string{"=", "!=", "<", ">", "<=", ">=", "&", "&="}

var ListConst = map[string]string{"user": "AUDIT_FILTER_USER", "task": "AUDIT_FILTER_TASK", "exit": "AUDIT_FILTER_EXIT", "exclude": "AUDIT_FILTER_EXCLUDE"}
var ActionConst = map[string]string{"never": "AUDIT_NEVER", "always": "AUDIT_ALWAYS"}

var FiletypeConst = map[string]string{"file": "S_IFREG", "dir": "S_IFDIR", "socket": "S_IFSOCK", "symlink": "S_IFLNK", "char": "S_IFCHR", "block": "S_IFBLK", "fifo": "S_IFIFO"}

var PermBit = map[byte]string{'r': "AUDIT_PERM_READ", 'w': "AUDIT_PERM_WRITE", 'x': "AUDIT_PERM_EXEC", 'a': "AUDIT_PERM_ATTR"}

var cmpName = map[string]string{"uid": "UID", "gid": "GID", "euid": "EUID", "egid": "EGID", "auid": "AUID", "suid": "SUID", "sgid": "SGID",
	"fsuid": "FSUID", "fsgid": "FSGID", "obj_uid": "OBJ_UID", "obj_gid": "OBJ_GID"}

// ComparePairs lists every (left, right, code) the kernel headers define.
type ComparePair struct {
	L, R string
	Code uint32
}

var ComparePairs []ComparePair

// ArchNames maps the lower-case suffix of every AUDIT_ARCH_* constant to its value.
var ArchNames = map[string]uint32{}
var ArchList []string

var StringFieldsExit = []string{"obj_user", "obj_role", "obj_type", "obj_lev_low", "obj_lev_high", "path", "dir"}
var StringFieldsAny = []string{"subj_user", "subj_role", "subj_type", "subj_sen", "subj_clr", "exe", "key"}
var NumFields = []string{"pid", "ppid", "pers", "devmajor", "devminor", "success", "a0", "a1", "a2", "a3"}
var UIDFields = []string{"uid", "euid", "suid", "fsuid", "auid", "obj_uid"}
var GIDFields = []string{"gid", "egid", "sgid", "fsgid", "obj_gid"}
var ExitOnly = map[string]bool{"devmajor": true, "devminor": true, "success": true, "ppid": true, "exit": true, "perm": true, "filetype": true, "inode": true,
	"obj_user": true, "obj_role": true, "obj_type": true, "obj_lev_low": true, "obj_lev_high": true, "path": true, "dir": true}
var ExcludeOK = map[string]bool{"pid": true, "uid": true, "gid": true, "auid": true, "msgtype": true, "subj_user": true, "subj_role": true,
	"subj_type": true, "subj_sen": true, "subj_clr": true, "exe": true}

func init() {
	rev := map[string]string{}
	for k, v := range cmpName {
		rev[v] = k
	}
	for name, v := range uapi.S.Audit {
		if strings.HasPrefix(name, "AUDIT_COMPARE_") {
			parts := strings.Split(strings.TrimPrefix(name, "AUDIT_COMPARE_"), "_TO_")
			if len(parts) == 2 && rev[parts[0]] != "" && rev[parts[1]] != "" {
				ComparePairs = append(ComparePairs, ComparePair{rev[parts[0]], rev[parts[1]], uint32(v)})
			}
		}
		if strings.HasPrefix(name, "AUDIT_ARCH_") {
			ArchNames[strings.ToLower(strings.TrimPrefix(name, "AUDIT_ARCH_"))] = uint32(v)
		}
	}
	sort.Slice(ComparePairs, func(i, j int) bool { return ComparePairs[i].Code < ComparePairs[j].Code })
	for n := range ArchNames {
		ArchList = append(ArchList, n)
	}
	sort.Strings(ArchList)
}

// Account is a user or group of the local account files.
type Account struct {
	Name string
	ID   uint32
}

// Users and Groups are read from /etc/passwd and /etc/group by a parser of the harness' own (names that
// consist of letters, digits, '_' and '-' only, so that they are not mistaken for numbers).
var Users, Groups = readAccounts("/etc/passwd"), readAccounts("/etc/group")

func readAccounts(path string) []Account {
	b, err := os.ReadFile(path)
	if err != nil {
		return nil
	}
	var out []Account
	seen := map[string]bool{}
	for _, line := range strings.Split(string(b), "\n") {
		f := strings.Split(line, ":")
		if len(f) < 3 || f[0] == "" || seen[f[0]] {
			continue
		}
		ok := f[0][0] < '0' || f[0][0] > '9'
		for i := 0; i < len(f[0]); i++ {
			c := f[0][i]
			ok = ok && (c == '_' || c == '-' || c >= '0' && c <= '9' || c >= 'a' && c <= 'z' || c >= 'A' && c <= 'Z')
		}
		id, err := strconv.ParseUint(f[2], 10, 32)
		if !ok || err != nil {
			continue
		}
		seen[f[0]] = true
		out = append(out, Account{f[0], uint32(id)})
	}
	sort.Slice(out, func(i, j int) bool { return out[i].Name < out[j].Name })
	return out
}

// ---------------------------------------------------------------------------
// specification of a rule

type Filter struct {
	C   bool   `json:"c,omitempty"` // -C inter-field comparison
	LHS string `json:"lhs"`
	Op  string `json:"op"`
	RHS []byte `json:"rhs"`
	// intended wire value
	Field uint32 `json:"field"`
	OpC   uint32 `json:"opc"`
	Val   uint32 `json:"val"`
	IsStr bool   `json:"is_str,omitempty"`
	Class string `json:"class"`
	// Unrep: the text is a number no 32-bit field can hold (beyond 2^32-1 or below -2^31), so the
	// rule cannot be encoded "as asked": accepting it at all is the deviation.
	Unrep bool `json:"unrepresentable,omitempty"`
}

type Sys struct {
	Text string `json:"text"`
	Num  int64  `json:"num"` // -1 = "all"
}

type Spec struct {
	Watch   bool     `json:"watch,omitempty"`
	List    string   `json:"list,omitempty"`
	Action  string   `json:"action,omitempty"`
	Prepend bool     `json:"prepend,omitempty"`
	Filters []Filter `json:"filters,omitempty"`
	Sys     []Sys    `json:"sys,omitempty"`
	Keys    [][]byte `json:"keys,omitempty"`
	Path    string   `json:"path,omitempty"`
	Perms   string   `json:"perms,omitempty"`
	Invalid string   `json:"invalid,omitempty"` // why the generator expects a rejection ("" = expected valid)
	Struct  bool     `json:"struct_route"`      // render as rule struct instead of a flags line
}

func (s Spec) Describe() string {
	route := "flags"
	if s.Struct {
		route = "struct"
	}
	return fmt.Sprintf("[%s route] %s (expected-invalid=%q)", route, s.Line(), s.Invalid)
}

// Rule renders the spec as the library's rule struct.
func (s Spec) Rule() rule.Rule {
	keys := make([]string, len(s.Keys))
	for i, k := range s.Keys {
		keys[i] = string(k)
	}
	if len(keys) == 0 {
		keys = nil
	}
	if s.Watch {
		w := &rule.FileWatchRule{Type: rule.FileWatchRuleType, Path: s.Path, Keys: keys}
		for i := 0; i < len(s.Perms); i++ {
			switch s.Perms[i] {
			case 'r':
				w.Permissions = append(w.Permissions, rule.ReadAccessType)
			case 'w':
				w.Permissions = append(w.Permissions, rule.WriteAccessType)
			case 'x':
				w.Permissions = append(w.Permissions, rule.ExecuteAccessType)
			case 'a':
				w.Permissions = append(w.Permissions, rule.AttributeChangeAccessType)
			}
		}
		return w
	}
	r := &rule.SyscallRule{Type: rule.AppendSyscallRuleType, List: s.List, Action: s.Action, Keys: keys}
	if s.Prepend {
		r.Type = rule.PrependSyscallRuleType
	}
	for _, f := range s.Filters {
		ft := rule.ValueFilterType
		if f.C {
			ft = rule.InterFieldFilterType
		}
		r.Filters = append(r.Filters, rule.FilterSpec{Type: ft, LHS: f.LHS, Comparator: f.Op, RHS: string(f.RHS)})
	}
	for _, sc := range s.Sys {
		r.Syscalls = append(r.Syscalls, sc.Text)
	}
	return r
}

// ShQuote quotes an argument for the shell-style tokenizer (single quotes; a
// single quote inside is written as '\”).
func ShQuote(a string) string {
	if a != "" && !strings.ContainsAny(a, " \t\n'\"\\") {
		return a
	}
	return "'" + strings.ReplaceAll(a, "'", `'\''`) + "'"
}

// Args renders the spec as the argument list of a flags line.
func (s Spec) Args() []string {
	var a []string
	if s.Watch {
		a = append(a, "-w", s.Path)
		if s.Perms != "" {
			a = append(a, "-p", s.Perms)
		}
	} else {
		fl := "-a"
		if s.Prepend {
			fl = "-A"
		}
		a = append(a, fl, s.Action+","+s.List)
		for _, f := range s.Filters {
			if f.C {
				a = append(a, "-C", f.LHS+f.Op+string(f.RHS))
			} else {
				a = append(a, "-F", f.LHS+f.Op+string(f.RHS))
			}
		}
		if len(s.Sys) > 0 {
			var t []string
			for _, sc := range s.Sys {
				t = append(t, sc.Text)
			}
			a = append(a, "-S", strings.Join(t, ","))
		}
	}
	for _, k := range s.Keys {
		a = append(a, "-k", string(k))
	}
	return a
}

func (s Spec) Line() string {
	args := s.Args()
	q := make([]string, len(args))
	for i, a := range args {
		q[i] = ShQuote(a)
	}
	return strings.Join(q, " ")
}

// ---------------------------------------------------------------------------
// independent decoder of struct audit_rule_data

const (
	OffFlags      = 0
	OffAction     = 4
	OffFieldCount = 8
	OffMask       = 12
	OffFields     = 12 + 256
	OffValues     = 12 + 512
	OffFieldFlags = 12 + 768
	OffBufLen     = 12 + 1024
	HeaderSize    = 1040
	MaxFields     = 64
	MaskWords     = 64
)

type Wire struct {
	Flags, Action, FieldCount uint32
	Mask                      [MaskWords]uint32
	Fields, Values, FieldOps  [MaxFields]uint32
	BufLen                    uint32
	Buf                       []byte
	Total                     int
}

var ne = binary.NativeEndian

func Decode(b []byte) (*Wire, error) {
	if len(b) < HeaderSize {
		return nil, fmt.Errorf("rule of %d bytes is shorter than the %d byte header", len(b), HeaderSize)
	}
	w := &Wire{Total: len(b)}
	u := func(off int) uint32 { return ne.Uint32(b[off:]) }
	w.Flags, w.Action, w.FieldCount = u(OffFlags), u(OffAction), u(OffFieldCount)
	for i := 0; i < MaskWords; i++ {
		w.Mask[i] = u(OffMask + 4*i)
	}
	for i := 0; i < MaxFields; i++ {
		w.Fields[i], w.Values[i], w.FieldOps[i] = u(OffFields+4*i), u(OffValues+4*i), u(OffFieldFlags+4*i)
	}
	w.BufLen = u(OffBufLen)
	w.Buf = b[HeaderSize:]
	return w, nil
}

// IsStringField reports whether the kernel takes the value of the field as the
// length of a string in the buffer (audit_data_to_entry).
func IsStringField(code uint32) bool {
	for _, n := range []string{"AUDIT_SUBJ_USER", "AUDIT_SUBJ_ROLE", "AUDIT_SUBJ_TYPE", "AUDIT_SUBJ_SEN", "AUDIT_SUBJ_CLR",
		"AUDIT_OBJ_USER", "AUDIT_OBJ_ROLE", "AUDIT_OBJ_TYPE", "AUDIT_OBJ_LEV_LOW", "AUDIT_OBJ_LEV_HIGH",
		"AUDIT_WATCH", "AUDIT_DIR", "AUDIT_FILTERKEY", "AUDIT_EXE"} {
		if code == uapi.A(n) {
			return true
		}
	}
	return false
}

// StructurallyValid checks what C13 demands of bytes ToCommandLine accepted.
func (w *Wire) StructurallyValid() error {
	if w.FieldCount > MaxFields {
		return fmt.Errorf("field_count %d > %d", w.FieldCount, MaxFields)
	}
	if int64(w.BufLen) > int64(w.Total-HeaderSize) {
		return fmt.Errorf("buflen %d exceeds the %d bytes after the header", w.BufLen, w.Total-HeaderSize)
	}
	var off uint64
	for i := uint32(0); i < w.FieldCount; i++ {
		if IsStringField(w.Fields[i]) {
			off += uint64(w.Values[i])
			if off > uint64(w.BufLen) {
				return fmt.Errorf("string of field %d ends at %d, beyond buflen %d", i, off, w.BufLen)
			}
		}
	}
	return nil
}

// Expect compares the wire bytes with what the spec asked for.
func (s Spec) Expect(b []byte) error {
	w, err := Decode(b)
	if err != nil {
		return err
	}
	type triple struct {
		f, op, v uint32
		str      []byte
		isStr    bool
	}
	var want []triple
	wantFlags, wantAction := uint32(0), uint32(0)
	all := true
	var wantMask [MaskWords]uint32
	if s.Watch {
		wantFlags, wantAction = uapi.A("AUDIT_FILTER_EXIT"), uapi.A("AUDIT_ALWAYS")
		p := filepath.Clean(s.Path)
		code := uapi.A("AUDIT_WATCH")
		if st, err := os.Stat(p); err == nil && st.IsDir() {
			code = uapi.A("AUDIT_DIR")
		}
		want = append(want, triple{code, uapi.A("AUDIT_EQUAL"), uint32(len(p)), []byte(p), true})
		perm := uint32(0)
		for i := 0; i < len(s.Perms); i++ {
			perm |= uapi.A(PermBit[s.Perms[i]])
		}
		if s.Perms == "" {
			perm = uapi.A("AUDIT_PERM_READ") | uapi.A("AUDIT_PERM_WRITE") | uapi.A("AUDIT_PERM_EXEC") | uapi.A("AUDIT_PERM_ATTR")
		}
		want = append(want, triple{uapi.A("AUDIT_PERM"), uapi.A("AUDIT_EQUAL"), perm, nil, false})
	} else {
		wantFlags, wantAction = uapi.A(ListConst[s.List]), uapi.A(ActionConst[s.Action])
		if s.Prepend {
			wantFlags |= uapi.A("AUDIT_FILTER_PREPEND")
		}
		for _, f := range s.Filters {
			t := triple{f: f.Field, op: f.OpC, v: f.Val, isStr: f.IsStr}
			if f.IsStr {
				t.str = f.RHS
			}
			want = append(want, t)
		}
		for _, sc := range s.Sys {
			if sc.Num == -2 {
				return fmt.Errorf("syscall %q cannot be represented in the %d-bit mask, but the rule was accepted", sc.Text, MaskWords*32)
			}
			if sc.Num < 0 {
				all = true
				for i := range wantMask {
					wantMask[i] = 0
				}
				continue
			}
			all = false
			wantMask[sc.Num/32] |= 1 << (uint(sc.Num) % 32)
		}
	}
	if len(s.Keys) > 0 {
		var k []byte
		for i, x := range s.Keys {
			if i > 0 {
				k = append(k, 1)
			}
			k = append(k, x...)
		}
		if len(k) > 0 { // an empty key (-k '') is no key at all, as with auditctl
			want = append(want, triple{uapi.A("AUDIT_FILTERKEY"), uapi.A("AUDIT_EQUAL"), uint32(len(k)), k, true})
		}
	}
	if w.Flags != wantFlags {
		return fmt.Errorf("flags word = %#x, want %#x (list %s, prepend=%v)", w.Flags, wantFlags, s.List, s.Prepend)
	}
	if w.Action != wantAction {
		return fmt.Errorf("action = %d, want %d (%s)", w.Action, wantAction, s.Action)
	}
	if int(w.FieldCount) != len(want) {
		return fmt.Errorf("field_count = %d, want %d", w.FieldCount, len(want))
	}
	if len(want) > MaxFields {
		return fmt.Errorf("a rule with %d fields was accepted; the kernel structure holds %d", len(want), MaxFields)
	}
	for i := 0; i < MaskWords; i++ {
		if all {
			if !(w.Mask[i] == 0xffffffff || (i == MaskWords-1 && w.Mask[i] == 0x0000ffff)) {
				return fmt.Errorf("all-syscalls pattern expected, mask word %d = %#x", i, w.Mask[i])
			}
		} else if w.Mask[i] != wantMask[i] {
			return fmt.Errorf("syscall mask word %d = %#x, want %#x", i, w.Mask[i], wantMask[i])
		}
	}
	var buf []byte
	for i := 0; i < MaxFields; i++ {
		if i >= len(want) {
			if w.Fields[i] != 0 || w.Values[i] != 0 || w.FieldOps[i] != 0 {
				return fmt.Errorf("unused slot %d is not zero: (%d, %#x, %#x)", i, w.Fields[i], w.Values[i], w.FieldOps[i])
			}
			continue
		}
		t := want[i]
		if w.Fields[i] != t.f || w.FieldOps[i] != t.op || w.Values[i] != t.v {
			return fmt.Errorf("triple %d = (field %d, op %#x, value %#x), want (field %d, op %#x, value %#x)", i, w.Fields[i], w.FieldOps[i], w.Values[i], t.f, t.op, t.v)
		}
		if t.isStr {
			buf = append(buf, t.str...)
		}
	}
	if int(w.BufLen) != len(buf) {
		return fmt.Errorf("buflen = %d, want %d (sum of the string lengths)", w.BufLen, len(buf))
	}
	if len(w.Buf) < len(buf) || string(w.Buf[:len(buf)]) != string(buf) {
		return fmt.Errorf("buffer = %q, want %q", w.Buf, buf)
	}
	total := HeaderSize + len(buf)
	total += (4 - total%4) % 4
	if w.Total != total {
		return fmt.Errorf("total length = %d, want %d (header + buffer padded to 4)", w.Total, total)
	}
	for _, c := range w.Buf[len(buf):] {
		if c != 0 {
			return fmt.Errorf("padding is not zero")
		}
	}
	return nil
}

// ---------------------------------------------------------------------------
// generators

type Opts struct {
	Strict     bool     // C07 domain: strings without whitespace / quote characters
	FlagsRoute bool     // force the flags route
	Dir, File  string   // scratch directory and file for watch-shaped rules
	Links      []string // symbolic links in the scratch directory: to the directory, to the file, to nothing
	KnowsSys   func(arch, name string) bool
	KnowsArch  func(name string) bool
	MaxFilters int
	onlyCmp    bool // GenFilter draws inter-field comparisons only
	safeOnly   bool // GenFilter draws only filters the library accepts on the exit list (rules near the field limit)
}

func u32(t *rapid.T, label string) uint32 {
	return rapid.OneOf(rapid.SampledFrom([]uint32{0, 1, 2, 63, 64, 255, 0x7fffffff, 0x80000000, 0xfffffffe, 0xffffffff}), rapid.Uint32()).Draw(t, label)
}

func renderNum(t *rapid.T, v uint32) string {
	switch rapid.IntRange(0, 4).Draw(t, "render") {
	case 0:
		return fmt.Sprintf("0x%x", v)
	case 1:
		return fmt.Sprintf("0%o", v)
	case 2:
		if int32(v) < 0 {
			return strconv.FormatInt(int64(int32(v)), 10)
		}
	}
	return strconv.FormatUint(uint64(v), 10)
}

var strictByte = rapid.OneOf(
	rapid.ByteRange('a', 'z'), rapid.ByteRange('0', '9'),
	rapid.SampledFrom([]byte("#$*;|~`(){}[]?^_./:=,@%+<>&!-")),
	rapid.ByteRange(0x21, 0x7e), rapid.ByteRange(0x80, 0xff), rapid.ByteRange(0x02, 0x08),
).Filter(func(b byte) bool { return b != '\'' && b != '"' && b != '\\' })

// StrictName draws a file name of the strict alphabet (every byte but white space, quote characters, backslash,
// NUL and the slash): characters that mean something to a shell, to a glob matcher or to a flag parser first.
func StrictName(t *rapid.T, label string) string {
	if rapid.Bool().Draw(t, label+"-fixed") {
		return rapid.SampledFrom([]string{"report[1].log", "core.*", "what?", "a{b,c}", "~user", "$HOME", "#x", "x;y", "a|b", "-w", "--", "-k", "=x", "a=b", "a,b",
			"[", "]", "*", "?", "**", "a&b", "(x)", "`x`", "!x", "%41", "a:b", "@x", "^x", "<x>", "\x01", "\x7f", "\xff", "\xc3\xa9"}).Draw(t, label)
	}
	b := noUnicodeSpace(rapid.SliceOfN(strictByte.Filter(func(b byte) bool { return b != '/' }), 1, 24).Draw(t, label))
	return string(b)
}

// noUnicodeSpace: two or three of the drawn bytes can happen to spell a white-space character beyond ASCII
// (U+0085, U+00A0, U+2028 ...); white space is outside the C07 domain, so such a sequence is overwritten.
func noUnicodeSpace(b []byte) []byte {
	for i := 0; i < len(b); {
		r, n := utf8.DecodeRune(b[i:])
		if r != utf8.RuneError && unicode.IsSpace(r) {
			for j := i; j < i+n; j++ {
				b[j] = 'u'
			}
		}
		i += n
	}
	return b
}

func genString(t *rapid.T, label string, o Opts, max int) []byte {
	if max <= 0 {
		max = 30
	}
	var s string
	if o.Strict {
		// everything the C07 domain admits: any byte but white space, the quote characters ' " \ and NUL
		b := noUnicodeSpace(rapid.SliceOfN(strictByte, 1, max).Draw(t, label))
		if strings.IndexByte("=<>&!", b[0]) >= 0 {
			b[0] = 'x' // a leading operator character is the business of the "ambiguous" shape below
		}
		s = string(b)
	} else if o.FlagsRoute {
		// the shell-style tokenizer cannot carry every byte; stay with printable text plus quotes and spaces
		s = rapid.StringMatching(`[A-Za-z0-9_./:,@%+ '"\\-][A-Za-z0-9_./:=,@%+ '"\\<>&!-]{0,`+strconv.Itoa(max-1)+`}`).Draw(t, label)
	} else {
		b := rapid.SliceOfN(rapid.OneOf(rapid.ByteRange(0x20, 0x7e), rapid.ByteRange(1, 255)), 1, max).Draw(t, label)
		s = string(b)
	}
	if o.FlagsRoute && !o.Strict {
		// leading and trailing blanks are part of the value ("the complete text after the operator")
		if strings.ContainsAny(s[:1], "=<>&!") {
			s = "x" + s // after '<', '>', '&' or '!' a leading '=' would read as a different operator
		}
	}
	return []byte(s)
}

func flt(lhs, op string, rhs []byte, val uint32, class string) Filter {
	return Filter{LHS: lhs, Op: op, RHS: rhs, Field: uapi.A(FieldConst[lhs]), OpC: uapi.A(OpConst[op]), Val: val, Class: class}
}

func pick[T any](t *rapid.T, label string, xs []T) T { return rapid.SampledFrom(xs).Draw(t, label) }

// GenFilter draws one filter. ok=false means the generator knows the filter is
// not admitted on this list (kept only to measure the rejection rate).
func GenFilter(t *rapid.T, list string, o Opts, haveArch *string) (Filter, string) {
	kinds := []string{"num", "num", "uid", "gid", "strx", "stra", "exit", "msgtype", "arch", "perm", "filetype", "inode", "saddr_fam", "cmp", "path"}
	kind := pick(t, "fkind", kinds)
	if rapid.IntRange(0, 24).Draw(t, "outofrange") == 0 {
		kind = "range"
	}
	if o.safeOnly {
		kind = pick(t, "safekind", []string{"num", "cmp", "inode", "num", "saddr_fam"})
	}
	if o.onlyCmp {
		kind = "cmp"
	}
	op := pick(t, "op", AllOps)
	invalid := ""
	var f Filter
	switch kind {
	case "range":
		name := pick(t, "field", append(append(append([]string{"inode", "exit", "msgtype", "saddr_fam"}, NumFields...), UIDFields...), GIDFields...))
		big := rapid.OneOf(rapid.SampledFrom([]int64{1 << 32, 1<<32 + 1, 1<<32 + 2, 1<<32 + 10, 1 << 33, 1<<63 - 1, 1<<40 + 7}), rapid.Int64Range(1<<32, 1<<34)).Draw(t, "big")
		txt := strconv.FormatInt(big, 10)
		switch rapid.IntRange(0, 3).Draw(t, "rangeform") {
		case 0:
			txt = "-" + strconv.FormatInt(big-(1<<31)+1, 10) // -(2^31+1) and below
		case 1:
			txt = "0x" + strconv.FormatInt(big, 16)
		case 2:
			txt = "-" + txt
		}
		f = flt(name, op, []byte(txt), 0, "out-of-range")
		f.Unrep = true
		if name == "inode" && op != "=" && op != "!=" {
			f.Op, f.OpC = "=", uapi.A(OpConst["="])
		}
		invalid = "number that no 32-bit field can hold"
	case "num":
		name := pick(t, "field", NumFields)
		v := u32(t, "val")
		f = flt(name, op, []byte(renderNum(t, v)), v, "num")
	case "uid", "gid":
		fields := UIDFields
		if kind == "gid" {
			fields = GIDFields
		}
		name := pick(t, "field", fields)
		v := rapid.OneOf(rapid.SampledFrom([]uint32{0, 1, 1000, 0x7fffffff, 0x80000000, 0xfffffffe, 0xffffffff}), rapid.Uint32()).Draw(t, "id")
		txt := strconv.FormatUint(uint64(v), 10)
		if v == 0xffffffff && rapid.Bool().Draw(t, "unsetspelling") {
			txt = pick(t, "unset", []string{"unset", "-1"})
		}
		if !o.Strict && rapid.IntRange(0, 3).Draw(t, "byname") == 0 {
			// by name: resolved by the harness' own reading of /etc/passwd (users) and /etc/group (groups)
			db := Users
			if kind == "gid" {
				db = Groups
			}
			if len(db) > 0 {
				e := pick(t, "account", db)
				txt, v = e.Name, e.ID
			}
		}
		f = flt(name, op, []byte(txt), v, kind)
	case "strx", "stra", "path":
		fields := StringFieldsAny
		if kind == "strx" {
			fields = StringFieldsExit
		}
		name := pick(t, "field", fields)
		s := genString(t, "str", o, 30)
		if kind == "path" {
			name = pick(t, "pathfield", []string{"path", "dir", "exe"})
			s = append([]byte("/"), s...)
		}
		if rapid.IntRange(0, 9).Draw(t, "longvalue") == 0 {
			// values up to (and one past) the limits the library states: 4096 bytes per string, 256 for a key field
			limit := 4096
			if name == "key" {
				limit = 256
			}
			want := rapid.OneOf(rapid.SampledFrom([]int{limit - 1, limit, limit, limit + 1}), rapid.IntRange(31, limit)).Draw(t, "longlen")
			for len(s) < want {
				s = append(s, s[:min(len(s), want-len(s))]...)
			}
			if len(s) > limit {
				invalid = "string value longer than the library's limit"
			}
			if o.Strict {
				s = noUnicodeSpace(s) // the seam of two copies can spell one
			}
		}
		if o.Strict && !o.FlagsRoute && (op == "<" || op == ">" || op == "&") && rapid.IntRange(0, 7).Draw(t, "ambiguous") == 0 {
			// struct route only: after '<', '>' or '&' a value that starts with '=' prints as the text of another operator
			s = append([]byte("="), s...)
		}
		f = flt(name, op, s, uint32(len(s)), "string")
		f.IsStr = true
	case "exit":
		switch rapid.IntRange(0, 2).Draw(t, "exitform") {
		case 0:
			v := rapid.OneOf(rapid.Int32(), rapid.Int32Range(-140, 10)).Draw(t, "exit")
			txt := strconv.Itoa(int(v))
			if !o.Strict || true {
				switch rapid.IntRange(0, 3).Draw(t, "exitrender") {
				case 0:
					if v >= 0 {
						txt = fmt.Sprintf("0x%x", v)
					} else {
						txt = fmt.Sprintf("-0x%x", -int64(v))
					}
				case 1:
					if v >= 0 {
						txt = fmt.Sprintf("0%o", v)
					}
				}
			}
			f = flt("exit", op, []byte(txt), uint32(v), "exit")
		default:
			names := make([]string, 0, len(uapi.S.Errno))
			for n := range uapi.S.Errno {
				names = append(names, n)
			}
			sort.Strings(names)
			n := pick(t, "errno", names)
			if rapid.Bool().Draw(t, "neg") {
				f = flt("exit", op, []byte("-"+n), uint32(int32(-uapi.S.Errno[n])), "exit-name")
			} else {
				f = flt("exit", op, []byte(n), uint32(uapi.S.Errno[n]), "exit-name")
			}
		}
	case "msgtype":
		switch rapid.IntRange(0, 2).Draw(t, "msgform") {
		case 0:
			v := rapid.OneOf(rapid.Uint32(), rapid.Uint32Range(1000, 2500), rapid.SampledFrom([]uint32{0, 65535, 65536, 70000, 0xffffffff})).Draw(t, "msgtype")
			txt := strconv.FormatUint(uint64(v), 10)
			if rapid.IntRange(0, 3).Draw(t, "msgrender") == 0 {
				txt = fmt.Sprintf("0x%x", v)
			}
			f = flt("msgtype", op, []byte(txt), v, "msgtype")
		case 1:
			v := rapid.Uint16().Draw(t, "msgtype16")
			f = flt("msgtype", op, []byte(fmt.Sprintf("UNKNOWN[%d]", v)), uint32(v), "msgtype-unknown")
		default:
			n := pick(t, "msgname", []string{"USER_TTY", "USER_AVC", "SYSCALL", "PATH", "EXECVE", "AVC", "LOGIN", "CONFIG_CHANGE", "SECCOMP", "TTY", "DAEMON_START", "KERNEL_OTHER", "ANOM_ABEND", "MAC_STATUS", "PROCTITLE", "EOE"})
			f = flt("msgtype", op, []byte(n), uapi.A("AUDIT_"+n), "msgtype-name")
		}
	case "arch":
		if *haveArch != "" {
			return GenFilter(t, list, o, haveArch)
		}
		aop := pick(t, "archop", []string{"=", "!=", "=", "="})
		name := rapid.OneOf(rapid.SampledFrom([]string{"b64", "b32", "x86_64", "i386", "aarch64"}), rapid.SampledFrom(ArchList)).Draw(t, "arch")
		var v uint32
		switch name {
		case "b64":
			v = ArchNames["x86_64"]
		case "b32":
			v = ArchNames["i386"]
		default:
			v = ArchNames[name]
			if o.KnowsArch != nil && !o.KnowsArch(name) {
				invalid = "arch name the library does not know"
			}
		}
		f = flt("arch", aop, []byte(name), v, "arch")
		*haveArch = name
	case "perm":
		p := rapid.StringMatching(`[rwxa]{1,5}`).Draw(t, "perm")
		var v uint32
		for i := 0; i < len(p); i++ {
			v |= uapi.A(PermBit[p[i]])
		}
		f = flt("perm", "=", []byte(p), v, "perm")
	case "filetype":
		names := []string{"file", "dir", "socket", "symlink", "char", "block", "fifo"}
		n := pick(t, "filetype", names)
		f = flt("filetype", op, []byte(n), uapi.S.Stat[FiletypeConst[n]], "filetype")
	case "inode":
		v := u32(t, "inode")
		f = flt("inode", pick(t, "inodeop", []string{"=", "!="}), []byte(renderNum(t, v)), v, "inode")
	case "saddr_fam":
		v := pick(t, "fam", []uint32{2, 10})
		f = flt("saddr_fam", op, []byte(strconv.Itoa(int(v))), v, "saddr_fam")
	case "cmp":
		p := pick(t, "pair", ComparePairs)
		l, r := p.L, p.R
		if rapid.Bool().Draw(t, "swap") {
			l, r = r, l
		}
		cop := pick(t, "cmpop", []string{"=", "!="})
		f = Filter{C: true, LHS: l, Op: cop, RHS: []byte(r), Field: uapi.A("AUDIT_FIELD_COMPARE"), OpC: uapi.A(OpConst[cop]), Val: p.Code, Class: "compare"}
	}
	if invalid == "" {
		switch {
		case ExitOnly[f.LHS] && list != "exit" && !f.C:
			invalid = "field only admitted on the exit list"
		case f.LHS == "msgtype" && list != "user" && list != "exclude":
			invalid = "msgtype only on user/exclude"
		case list == "exclude" && !f.C && !ExcludeOK[f.LHS]:
			invalid = "field not admitted on the exclude list"
		}
	}
	return f, invalid
}

// GenWatchShaped draws a syscall rule that has exactly the shape of a file watch (exit,always, all syscalls,
// path= or dir= with '=', perm=, optionally keys): the printed form of such a rule is `-w target -p perms`.
func GenWatchShaped(t *rapid.T, o Opts, field, target string) Spec {
	s := Spec{List: "exit", Action: "always", Struct: !o.FlagsRoute && rapid.Bool().Draw(t, "structroute")}
	p := rapid.StringMatching(`[rwxa]{1,4}`).Draw(t, "perm")
	var v uint32
	for i := 0; i < len(p); i++ {
		v |= uapi.A(PermBit[p[i]])
	}
	tf := flt(field, "=", []byte(target), uint32(len(target)), "string")
	tf.IsStr = true
	s.Filters = []Filter{tf, flt("perm", "=", []byte(p), v, "perm")}
	// ... or one step away from that shape (the -w form can express none of these)
	switch rapid.IntRange(0, 7).Draw(t, "nearwatch") {
	case 1:
		s.Prepend = true
	case 2:
		s.Action = "never"
	case 3:
		s.Filters[0].Op, s.Filters[0].OpC = "!=", uapi.A("AUDIT_NOT_EQUAL")
	case 4:
		s.Filters = append(s.Filters, flt("pid", "=", []byte("1"), 1, "num"))
	case 5:
		s.Filters[0], s.Filters[1] = s.Filters[1], s.Filters[0]
	case 6:
		s.Sys = []Sys{{Text: "2", Num: 2}}
	}
	if !s.Struct {
		o.FlagsRoute = true
	}
	s.Keys = genKeys(t, o)
	return s
}

// GenSpec draws a rule.
func GenSpec(t *rapid.T, o Opts) Spec {
	var s Spec
	s.Struct = !o.FlagsRoute && rapid.Bool().Draw(t, "structroute")
	if !s.Struct {
		o.FlagsRoute = true
	}
	if rapid.IntRange(0, 7).Draw(t, "watch") == 0 {
		s.Watch = true
		paths := []string{o.Dir, o.File, o.Dir + "/missing", "/", "/nonexistent-" + "verif", o.Dir + "/../" + filepath.Base(o.Dir), o.File + "/", o.Dir + "//x"}
		paths = append(paths, o.Links...) // the kind of a watch follows symbolic links, as stat(2) does
		s.Path = pick(t, "watchpath", paths)
		if rapid.IntRange(0, 3).Draw(t, "oddwatchname") == 0 {
			s.Path = filepath.Join(o.Dir, StrictName(t, "oddwatchname")) // does not exist: a file watch
		}
		s.Perms = rapid.StringMatching(`[rwxa]{0,5}`).Draw(t, "perms")
		s.Keys = genKeys(t, o)
		return s
	}
	s.List = pick(t, "list", []string{"exit", "exit", "exit", "task", "user", "exclude"})
	s.Action = pick(t, "action", []string{"always", "never"})
	s.Prepend = rapid.IntRange(0, 3).Draw(t, "prepend") == 0
	maxf := o.MaxFilters
	if maxf == 0 {
		maxf = 8
	}
	n := rapid.IntRange(0, maxf).Draw(t, "nfilters")
	if rapid.IntRange(0, 60).Draw(t, "many") == 0 {
		n = rapid.IntRange(60, 70).Draw(t, "nmany")
	}
	// around the 64-field limit the kinds matter: -F filters, -C comparisons and the key are counted at
	// different places, so every mix of a tail of comparisons, with and without keys, is drawn on purpose
	cmpTailFrom := -1
	if n >= 60 {
		// a rule this long is only accepted if every single filter is: stay with kinds that always are
		s.List, o.safeOnly = "exit", true
		if rapid.Bool().Draw(t, "cmptail") {
			cmpTailFrom = rapid.IntRange(58, 66).Draw(t, "cmptailfrom")
		}
	}
	arch := ""
	for i := 0; i < n; i++ {
		prevArch := arch
		o.onlyCmp = cmpTailFrom >= 0 && len(s.Filters) >= cmpTailFrom
		f, inv := GenFilter(t, s.List, o, &arch)
		if inv != "" && rapid.IntRange(0, 3).Draw(t, "keepinvalid") != 0 {
			arch = prevArch
			continue // keep only a quarter of the filters that are expected to be refused
		}
		if inv != "" && s.Invalid == "" {
			s.Invalid = inv
		}
		if f.LHS == "arch" && !f.C {
			// arch comes first, as the library (and auditctl) wants it before -S
			s.Filters = append([]Filter{f}, s.Filters...)
			if rapid.IntRange(0, 5).Draw(t, "archnotfirst") == 0 && len(s.Filters) > 1 {
				s.Filters = append(s.Filters[1:], f)
			}
		} else {
			s.Filters = append(s.Filters, f)
		}
	}
	// syscalls
	ns := rapid.IntRange(0, 5).Draw(t, "nsys")
	tab := ""
	switch arch {
	case "", "b64", "x86_64":
		tab = "x86_64"
	case "b32", "i386":
		tab = "i386"
	case "aarch64":
		tab = "aarch64"
	}
	var names []string
	if tab != "" {
		for n := range uapi.S.Syscalls[tab] {
			names = append(names, n)
		}
		sort.Strings(names)
	}
	for i := 0; i < ns; i++ {
		switch k := rapid.IntRange(0, 9).Draw(t, "syskind"); {
		case k < 2 && tab == "" && arch != "" && o.KnowsSys != nil:
			// a syscall by name under an architecture this generator has no table for: fine to ask for when the
			// library has none either (then the rule cannot be encoded as asked); skipped when the library knows it
			n := pick(t, "sysname-foreign", []string{"read", "open", "execve", "openat", "exit_group"})
			if o.KnowsSys(arch, n) {
				continue
			}
			s.Sys = append(s.Sys, Sys{Text: n, Num: -2})
			if s.Invalid == "" {
				s.Invalid = "syscall name under an architecture without that syscall"
			}
		case k < 4 && len(names) > 0:
			n := pick(t, "sysname", names)
			if o.KnowsSys != nil && !o.KnowsSys(tab, n) {
				continue
			}
			num := uapi.S.Syscalls[tab][n]
			if num > 2047 {
				continue
			}
			s.Sys = append(s.Sys, Sys{Text: n, Num: int64(num)})
		case k == 9 && rapid.IntRange(0, 3).Draw(t, "sysunrep") == 0:
			// a syscall number the 2048-bit mask cannot hold: the rule cannot be encoded as asked
			txt := rapid.OneOf(rapid.SampledFrom([]string{"2048", "2049", "2079", "2080", "4095", "65536", "-1", "-33", "4294967295", "4294967296", "4294967297", "4294969343", "9223372036854775807"}),
				rapid.Map(rapid.Int64Range(2048, 1<<33), func(v int64) string { return strconv.FormatInt(v, 10) })).Draw(t, "sysunreptext")
			s.Sys = append(s.Sys, Sys{Text: txt, Num: -2})
			if s.Invalid == "" {
				s.Invalid = "syscall number outside the mask"
			}
		case k == 4 && i == 0:
			// "all" stands alone: mixing it with other syscalls has no agreed meaning
			s.Sys = []Sys{{Text: "all", Num: -1}}
			ns = 0
		default:
			v := rapid.OneOf(rapid.IntRange(0, 2047), rapid.IntRange(0, 500), rapid.SampledFrom([]int{0, 31, 32, 63, 64, 2015, 2016, 2046, 2047})).Draw(t, "sysnum")
			txt := strconv.Itoa(v)
			if rapid.IntRange(0, 5).Draw(t, "leadingzero") == 0 {
				txt = pick(t, "zeros", []string{"0", "00", "000"}) + txt // decimal all the same (auditctl reads it with strtol(.., 10))
			}
			s.Sys = append(s.Sys, Sys{Text: txt, Num: int64(v)})
		}
	}
	s.Keys = genKeys(t, o)
	if cmpTailFrom >= 0 && rapid.Bool().Draw(t, "cmptailnokeys") {
		s.Keys = nil
	}
	if s.List == "exclude" && len(s.Keys) > 0 {
		// the library does not admit keys on the exclude list
		if rapid.IntRange(0, 3).Draw(t, "keepkeys") != 0 {
			s.Keys = nil
		} else if s.Invalid == "" {
			s.Invalid = "key on the exclude list"
		}
	}
	total := len(s.Filters)
	if len(s.Keys) > 0 {
		total++
	}
	if total > MaxFields && s.Invalid == "" {
		s.Invalid = "more than 64 fields"
	}
	return s
}

func genKeys(t *rapid.T, o Opts) [][]byte {
	var keys [][]byte
	for i, n := 0, rapid.IntRange(0, 3).Draw(t, "nkeys"); i < n; i++ {
		var k string
		if o.Strict && !o.FlagsRoute {
			// struct route: a key may contain commas (only the -k flag of the text form splits at commas)
			k = string(noUnicodeSpace(rapid.SliceOfN(strictByte, 1, 12).Draw(t, "key")))
		} else if o.Strict {
			k = string(noUnicodeSpace(rapid.SliceOfN(strictByte.Filter(func(b byte) bool { return b != ',' }), 1, 12).Draw(t, "key")))
		} else if o.FlagsRoute {
			k = rapid.StringMatching(`[A-Za-z0-9_.:=/@%+-]{1,12}`).Draw(t, "key")
		} else {
			k = string(genString(t, "key", o, 12))
			k = strings.ReplaceAll(k, "\x01", "_")
		}
		if rapid.IntRange(0, 15).Draw(t, "emptykey") == 0 {
			k = "" // -k ''
		}
		keys = append(keys, []byte(k))
	}
	if len(keys) > 0 && len(keys[len(keys)-1]) > 0 && rapid.IntRange(0, 9).Draw(t, "longkeys") == 0 {
		// the keys of a rule travel joined by 0x01 in one field of at most 256 bytes
		joined := len(keys) - 1
		for _, k := range keys {
			joined += len(k)
		}
		want := rapid.OneOf(rapid.SampledFrom([]int{255, 256, 256, 257}), rapid.IntRange(13, 256)).Draw(t, "keyslen")
		last := keys[len(keys)-1]
		for ; joined < want; joined++ {
			last = append(last, last[len(last)%len(keys[len(keys)-1])])
		}
		keys[len(keys)-1] = last
	}
	return keys
}
