// Package simk is a simulated kernel behind libaudit.NetlinkSendReceiver. Send
// assigns sequence numbers and records the serialised request; the datagrams
// the kernel answers with are prescribed by a script (a plain value that is
// part of the generated case). Receive copies each datagram into ONE reused
// buffer — poisoned before every copy — and hands a sub-slice to the parser,
// exactly like the real socket does.
package simk

import (
	"encoding/binary"
	"fmt"
	"os"
	"syscall"

	libaudit "github.com/elastic/go-libaudit/v2"
)

// Item is one thing the next Receive call yields: a transient failure or a datagram.
type Item struct {
	Fail syscall.Errno
	Data []byte
}

type Sent struct {
	Type  uint16
	Flags uint16
	Seq   uint32
	Pid   uint32
	Data  []byte
}

type K struct {
	Seq    uint32 // last sequence number handed out
	Sent   []Sent
	Queue  []Item
	Buf    []byte
	Closes int
	Recvs  int
	Sends  int
	// EmptyReads counts receives that found nothing queued (the client then sleeps 50 ms)
	EmptyReads    int
	SendErr       error
	CloseErr      error
	ClosedReadErr syscall.Errno
	// WrapFails: how a failing receive reports its errno — 0 bare (as syscall.Recvfrom does), 1 as *os.SyscallError,
	// 2 wrapped with fmt.Errorf("%w"): a transport of the caller's own may do either
	WrapFails int
	// AllowZeroSeq: number requests as NetlinkClient does — the request after 4294967295 is number 0
	AllowZeroSeq bool // once Close was called every Receive fails with this (0 = queued datagrams stay readable)
	// OnSend is called for every request after it has been recorded; it queues
	// the kernel's answer. Leftovers of the previous operation are dropped first
	// unless KeepQueue is set.
	OnSend    func(k *K, s Sent)
	KeepQueue bool
	// Log of events in order ("send", "recv", "close") for ordering assertions.
	Log []string
}

func New(startSeq uint32) *K {
	return &K{Seq: startSeq, Buf: make([]byte, 16+8970)}
}

var ne = binary.NativeEndian

// Msg builds one netlink datagram (nlmsghdr + payload) in native byte order.
func Msg(typ uint16, flags uint16, seq uint32, pid uint32, payload []byte) []byte {
	b := make([]byte, 16+len(payload))
	ne.PutUint32(b[0:], uint32(len(b)))
	ne.PutUint16(b[4:], typ)
	ne.PutUint16(b[6:], flags)
	ne.PutUint32(b[8:], seq)
	ne.PutUint32(b[12:], pid)
	copy(b[16:], payload)
	return b
}

// Ack builds the NLMSG_ERROR acknowledgement of a request: the (negative) errno
// followed by the header of the request it answers.
func Ack(seq uint32, errno int, reqType uint16) []byte {
	p := make([]byte, 4+16)
	ne.PutUint32(p[0:], uint32(int32(-errno)))
	ne.PutUint32(p[4:], 16)
	ne.PutUint16(p[8:], reqType)
	ne.PutUint16(p[10:], syscall.NLM_F_REQUEST|syscall.NLM_F_ACK)
	ne.PutUint32(p[12:], seq)
	return Msg(syscall.NLMSG_ERROR, 0, seq, 0, p)
}

func (k *K) Send(m syscall.NetlinkMessage) (uint32, error) {
	k.Sends++
	k.Log = append(k.Log, "send")
	if k.SendErr != nil {
		return 0, k.SendErr
	}
	k.Seq++
	if k.Seq == 0 && !k.AllowZeroSeq { // the kernel uses 0 for unsolicited events; a request never carries it here
		k.Seq++
	}
	s := Sent{Type: m.Header.Type, Flags: m.Header.Flags, Seq: k.Seq, Pid: m.Header.Pid, Data: append([]byte(nil), m.Data...)}
	k.Sent = append(k.Sent, s)
	if !k.KeepQueue {
		k.Queue = nil
	}
	if k.OnSend != nil {
		k.OnSend(k, s)
	}
	return k.Seq, nil
}

func (k *K) Receive(nonBlocking bool, p libaudit.NetlinkParser) ([]syscall.NetlinkMessage, error) {
	k.Recvs++
	k.Log = append(k.Log, "recv")
	if k.Closes > 0 && k.ClosedReadErr != 0 {
		return nil, k.ClosedReadErr
	}
	if len(k.Queue) == 0 {
		k.EmptyReads++
		return nil, syscall.EAGAIN
	}
	it := k.Queue[0]
	k.Queue = k.Queue[1:]
	if it.Fail != 0 {
		switch k.WrapFails {
		case 1:
			return nil, os.NewSyscallError("recvfrom", it.Fail)
		case 2:
			return nil, fmt.Errorf("receive failed: %w", it.Fail)
		}
		return nil, it.Fail
	}
	for i := range k.Buf {
		k.Buf[i] = 0xEE
	}
	n := copy(k.Buf, it.Data)
	return p(k.Buf[:n])
}

func (k *K) Close() error {
	k.Closes++
	k.Log = append(k.Log, "close")
	return k.CloseErr
}

// Push queues a datagram.
func (k *K) Push(data []byte) { k.Queue = append(k.Queue, Item{Data: data}) }

// Fail queues a transient receive failure.
func (k *K) Fail(e syscall.Errno) { k.Queue = append(k.Queue, Item{Fail: e}) }
