// Package kenc writes audit records the way the Linux kernel and the user-space
// audit tools write them. It is written from the kernel's formatting rules
// (audit_log_untrustedstring, audit_log_n_hex, audit_log_execve_info,
// audit_log_format of struct sockaddr) and shares no code with package auparse,
// so that "parse what kenc wrote" is a real round trip.
package kenc

import (
	"fmt"
	"strings"
)

// Enc says how a field value is written.
type Enc int

const (
	Plain     Enc = iota // key=value, value written as is (numbers, tokens)
	Untrusted            // audit_log_untrustedstring: "value" if safe, upper-case hex otherwise
	HexAlways            // audit_log_n_hex: always upper-case hex (TTY data)
	Quoted               // always in double quotes (user-space tools for safe strings)
	Bare                 // no key, the value is free text (e.g. "avc:  denied  { read } for ")
)

// F is one field of a record. V is the original (decoded) value.
type F struct {
	K   string `json:"k"`
	V   []byte `json:"v"`
	Enc Enc    `json:"enc"`
}

func P(k, v string) F { return F{K: k, V: []byte(v), Enc: Plain} }
func U(k, v string) F { return F{K: k, V: []byte(v), Enc: Untrusted} }
func H(k, v string) F { return F{K: k, V: []byte(v), Enc: HexAlways} }
func Q(k, v string) F { return F{K: k, V: []byte(v), Enc: Quoted} }
func T(text string) F { return F{V: []byte(text), Enc: Bare} }

const hexdigits = "0123456789ABCDEF"

// Hex is audit_log_n_hex.
func Hex(b []byte) string {
	out := make([]byte, 2*len(b))
	for i, c := range b {
		out[2*i] = hexdigits[c>>4]
		out[2*i+1] = hexdigits[c&0xf]
	}
	return string(out)
}

// NeedsHex is audit_string_contains_control: a double quote, a byte below 0x21
// or above 0x7e forces hex encoding.
func NeedsHex(b []byte) bool {
	for _, c := range b {
		if c == '"' || c < 0x21 || c > 0x7e {
			return true
		}
	}
	return false
}

// UntrustedString is audit_log_untrustedstring.
func UntrustedString(b []byte) string {
	if NeedsHex(b) {
		return Hex(b)
	}
	return `"` + string(b) + `"`
}

// Value renders the value of a field.
func (f F) Value() string {
	switch f.Enc {
	case Untrusted:
		return UntrustedString(f.V)
	case HexAlways:
		return Hex(f.V)
	case Quoted:
		return `"` + string(f.V) + `"`
	}
	return string(f.V)
}

func (f F) String() string {
	if f.Enc == Bare {
		return string(f.V)
	}
	return f.K + "=" + f.Value()
}

// Rec is one audit record.
type Rec struct {
	Type uint16 `json:"type"`
	Sec  int64  `json:"sec"`
	Ms   int    `json:"ms"`
	Seq  uint32 `json:"seq"`
	// Fields are written separated by single spaces. User holds the fields of a
	// user-space payload, which the kernel wraps verbatim as msg='…' after Fields.
	Fields []F `json:"fields"`
	User   []F `json:"user,omitempty"`
	// Tail is written after the msg='…' wrapper (fields the kernel appends to some
	// user records). It is rarely used.
	Tail []F `json:"tail,omitempty"`
	// UserClose replaces the closing quote of the msg='…' wrapper: old pam versions wrote
	// "(hostname=?, addr=?, terminal=cron res=success)'".
	UserClose string `json:"user_close,omitempty"`
}

func join(fs []F) string {
	parts := make([]string, len(fs))
	for i, f := range fs {
		parts[i] = f.String()
	}
	return strings.Join(parts, " ")
}

// Body is the text after "audit(…): ".
func (r Rec) Body() string {
	s := join(r.Fields)
	if r.User != nil {
		if s != "" {
			s += " "
		}
		cl := "'"
		if r.UserClose != "" {
			cl = r.UserClose
		}
		s += "msg='" + join(r.User) + cl
	}
	if len(r.Tail) > 0 {
		s += " " + join(r.Tail)
	}
	return s
}

// Header is "audit(S.mmm:N):" — the kernel prints three digits of milliseconds.
func Header(sec int64, ms int, seq uint32) string {
	return fmt.Sprintf("audit(%d.%03d:%d):", sec, ms, seq)
}

// Raw is the netlink payload: header, a space, the body.
func (r Rec) Raw() string { return Header(r.Sec, r.Ms, r.Seq) + " " + r.Body() }

// Line is the auditd log line for a record whose type has the given name.
func (r Rec) Line(typeName string) string { return "type=" + typeName + " msg=" + r.Raw() }

// ---------------------------------------------------------------------------
// struct sockaddr in hex (host byte order family, network byte order port)

func SockaddrInet(ip [4]byte, port uint16, pad [8]byte) []byte {
	b := []byte{2, 0, byte(port >> 8), byte(port)}
	b = append(b, ip[:]...)
	return append(b, pad[:]...)
}

func SockaddrInet6(ip [16]byte, port uint16, flow, scope uint32) []byte {
	b := []byte{10, 0, byte(port >> 8), byte(port), byte(flow >> 24), byte(flow >> 16), byte(flow >> 8), byte(flow)}
	b = append(b, ip[:]...)
	return append(b, byte(scope), byte(scope>>8), byte(scope>>16), byte(scope>>24))
}

// SockaddrUnix is sun_family + path + NUL + whatever garbage follows in the
// 108-byte sun_path buffer.
func SockaddrUnix(path []byte, junk []byte) []byte {
	b := append([]byte{1, 0}, path...)
	b = append(b, 0)
	return append(b, junk...)
}

// Execve renders the arguments like audit_log_execve_info: argc=N a0=… a1=…
func Execve(args [][]byte) []F {
	fs := []F{P("argc", fmt.Sprint(len(args)))}
	for i, a := range args {
		fs = append(fs, F{K: fmt.Sprintf("a%d", i), V: a, Enc: Untrusted})
	}
	return fs
}
