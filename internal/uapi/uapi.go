// Package uapi exposes a committed snapshot of Linux UAPI constants and syscall
// tables (uapi_snapshot.json, generated once by data/gen_uapi_snapshot.py from
// the kernel headers). It is the kernel-side oracle of the checks that name the
// kernel (C06 C12 C16 C18); it shares nothing with the library under test.
package uapi

import (
	_ "embed"
	"encoding/json"
	"sort"
)

//go:embed uapi_snapshot.json
var raw []byte

type Snapshot struct {
	Audit    map[string]uint64         `json:"audit"`
	ElfEM    map[string]uint64         `json:"elf_em"`
	Errno    map[string]int            `json:"errno"`
	Stat     map[string]uint32         `json:"stat"`
	Netlink  map[string]uint64         `json:"netlink"`
	Syscalls map[string]map[string]int `json:"syscalls"`
}

var S Snapshot

func init() {
	if err := json.Unmarshal(raw, &S); err != nil {
		panic("uapi snapshot: " + err.Error())
	}
}

// A returns an AUDIT_* constant; it panics when the name is missing so that a
// typo in a check cannot silently compare with zero.
func A(name string) uint32 {
	v, ok := S.Audit[name]
	if !ok {
		panic("uapi: no constant " + name)
	}
	return uint32(v)
}

// ErrnoNames returns, for each errno number, all names the headers give it.
func ErrnoNames() map[int][]string {
	out := map[int][]string{}
	for n, v := range S.Errno {
		out[v] = append(out[v], n)
	}
	for _, l := range out {
		sort.Strings(l)
	}
	return out
}
