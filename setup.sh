#!/bin/sh
# setup_cmd: offline build of the framework (module cache only) and warm-up of the
# Go build cache for every test binary the checks use.
set -e
cd "$(dirname "$0")"
export GOFLAGS=-mod=mod GOPROXY=off GOSUMDB=off GOTOOLCHAIN=local
mkdir -p .build replays evidence
go build -o .build/evmerge ./cmd/evmerge
for p in $(ls props); do
  [ -d "props/$p" ] || continue
  go test -c -tags verif -vet=off -o ".build/props_$p.test" "./props/$p"
done
# race-detector builds used by the concurrency stages
for p in reasm coalesce client; do
  [ -d "props/$p" ] && go test -c -race -tags verif -vet=off -o ".build/props_${p}_race.test" "./props/$p" || true
done
echo setup ok
