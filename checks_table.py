# Stage tables: one block per property. Executed by check.py (S and prop are defined there).

REASM = "props/reasm"

prop("C03", [
    S(REASM, "^TestC03Regress$", kind="plain"),
    S(REASM, "^TestC03$", q=20000, t=200000, shards=16),
], ["sequence numbers of a history lie in one 2^24 window (stated by the property)",
    "'in-order' means after the last in-order delivered event (C02's notion of a late arrival)",
    "record types that end an event: PROCTITLE, <=1299, >=2100; EOE completes a buffered event"],
   nontrivial_classes=["history-with-loss", "history-with-late-or-duplicate-delivery", "history-crossing-seam"])

REASM_ASSUME = ["record types that end an event: PROCTITLE, <=1299, >=2100; EOE completes a buffered event",
                "the harness' Stream recorder and bookkeeping are trusted; the Reassembler is driven from one goroutine"]

prop("C01", [
    S(REASM, "^TestC01Regress$", kind="plain"),
    S(REASM, "^TestC01$", q=20000, t=200000, shards=16),
], REASM_ASSUME, nontrivial_classes=["history-with-eviction-of-incomplete-event", "history-with-reused-sequence",
                                     "history-with-Push-parsed-record", "history-with-EOE-completion"])

prop("C02", [
    S(REASM, "^TestC02Regress$", kind="plain"),
    S(REASM, "^TestC02$", q=20000, t=200000, shards=16),
], REASM_ASSUME + ["sequence numbers of a history lie in one 2^24 window (stated by the property)"],
   nontrivial_classes=["history-with-out-of-order-buffering", "history-straddling-seam", "history-with-late-arrival"])

prop("C10", [
    S(REASM, "^TestC10Regress$", kind="plain"),
    S(REASM, "^TestC10$", q=20000, t=200000, shards=16),
], REASM_ASSUME + ["timeout is 1h so that expiry cannot be a cause (as the property's quantifier says)",
                   "sequence numbers of a history lie in one 2^24 window"],
   nontrivial_classes=["history-with-overflow-eviction", "history-with-complete-event-waiting"])

prop("C19", [
    S(REASM, "^TestC19Regress$", kind="plain"),
    S(REASM, "^TestC19$", q=4000, t=40000, shards=16),
], REASM_ASSUME + ["time is real: expiry is decided three-valued from harness clock brackets; only definite answers are asserted",
                   "no push is made after Close (the property does not say what it does)"],
   nontrivial_classes=["history-with-timeout-only-delivery", "history-with-call-after-close",
                       "decision-definitely-expired", "decision-definitely-live"])
