# Stage tables: one block per property. Executed by check.py (S and prop are defined there).

REASM = "props/reasm"

prop("C03", [
    S(REASM, "^TestC03Regress$", kind="plain"),
    S(REASM, "^TestC03$", q=20000, t=200000, shards=16),
], ["sequence numbers of a history lie in one 2^24 window (stated by the property)",
    "'in-order' means after the last in-order delivered event (C02's notion of a late arrival)",
    "record types that end an event: PROCTITLE, <=1299, >=2100; EOE completes a buffered event"],
   nontrivial_classes=["history-with-loss", "history-with-late-or-duplicate-delivery", "history-crossing-seam"])

REASM_ASSUME = ["record types that end an event: PROCTITLE, <=1299, >=2100; EOE completes a buffered event",
                "the harness' Stream recorder and bookkeeping are trusted; the Reassembler is driven from one goroutine"]

prop("C01", [
    S(REASM, "^TestC01Regress$", kind="plain"),
    S(REASM, "^TestC01$", q=20000, t=200000, shards=16),
], REASM_ASSUME, nontrivial_classes=["history-with-eviction-of-incomplete-event", "history-with-reused-sequence",
                                     "history-with-Push-parsed-record", "history-with-EOE-completion"])

prop("C02", [
    S(REASM, "^TestC02Regress$", kind="plain"),
    S(REASM, "^TestC02$", q=20000, t=200000, shards=16),
], REASM_ASSUME + ["sequence numbers of a history lie in one 2^24 window (stated by the property)"],
   nontrivial_classes=["history-with-out-of-order-buffering", "history-straddling-seam", "history-with-late-arrival"])

prop("C10", [
    S(REASM, "^TestC10Regress$", kind="plain"),
    S(REASM, "^TestC10$", q=20000, t=200000, shards=16),
], REASM_ASSUME + ["timeout is 1h so that expiry cannot be a cause (as the property's quantifier says)",
                   "sequence numbers of a history lie in one 2^24 window"],
   nontrivial_classes=["history-with-overflow-eviction", "history-with-complete-event-waiting"])

prop("C19", [
    S(REASM, "^TestC19Regress$", kind="plain"),
    S(REASM, "^TestC19$", q=4000, t=40000, shards=16),
], REASM_ASSUME + ["time is real: expiry is decided three-valued from harness clock brackets; only definite answers are asserted",
                   "no push is made after Close (the property does not say what it does)"],
   nontrivial_classes=["history-with-timeout-only-delivery", "history-with-call-after-close",
                       "decision-definitely-expired", "decision-definitely-live"])

PARSE = "props/parse"

prop("C04", [
    S(PARSE, "^TestC04Regress$", kind="plain"),
    S(PARSE, "^TestC04Types$", kind="plain"),
    S(PARSE, "^TestC04$", q=30000, t=300000, shards=16),
], ["milliseconds are written with three digits, as the kernel does",
    "malformed cases are only those that are malformed under any reading of the header grammar",
    "record type names are the library's own String() names (name<->number consistency is C20)"],
   nontrivial_classes=["valid-unknown-type", "valid-hostile-body", "valid-seq-ge-2^31", "malformed-trunc", "malformed-nomsg"])

prop("C05", [
    S(PARSE, "^TestC05Regress$", kind="plain"),
    S(PARSE, "^TestC05RepoLogs$", kind="plain"),
    S(PARSE, "^TestC05$", q=60000, t=1000000, shards=16, timeout_t=3000),
    S(PARSE, "", kind="fuzz", fuzz="FuzzParse", fuzztime_t=120),
    S(PARSE, "", kind="fuzz", fuzz="FuzzParseLogLine", fuzztime_t=120),
], ["absence of panics/hangs is sampled, not proved", "hang watchdog: 30 s per case for work that takes microseconds"],
   nontrivial_classes=["header-accepted", "enrich-type-1300", "enrich-type-1306", "enrich-type-1309", "enrich-type-1400", "enrich-type-1327"])

prop("C12", [
    S(PARSE, "^TestC12Regress$", kind="plain"),
    S(PARSE, "^TestC12Tables$", kind="plain"),
    S(PARSE, "^TestC12$", q=50000, t=1000000, shards=16, timeout_t=3000),
], ["values exclude what the property excludes (begin/end with a quote character, end in a backslash); inside msg='…' no single quote",
    "EXECVE arguments are not whole placeholders; IPv6 flowinfo < 2^28; unix paths non-abstract; IPs compared as addresses",
    "errno names come from the kernel header snapshot; arch/syscall names from the exported tables (what the property calls the published tables)"],
   nontrivial_classes=["hex-encoded-decoded-value", "derived-field", "kind-sockaddr", "kind-execve", "kind-proctitle", "kind-kthread"])
