# Stage tables: one block per property. Executed by check.py (S and prop are defined there).

REASM = "props/reasm"

prop("C03", [
    S(REASM, "^TestC03Regress$", kind="plain"),
    S(REASM, "^TestC03$", q=20000, t=200000, shards=16),
    S(REASM, "^TestC03Large$", kind="plain"),
], ["sequence numbers of a history lie in one 2^24 window (stated by the property)",
    "'in-order' means after the last in-order delivered event (C02's notion of a late arrival)",
    "record types that end an event: PROCTITLE, <=1299, >=2100; EOE completes a buffered event"],
   nontrivial_classes=["history-with-loss", "history-with-late-or-duplicate-delivery", "history-crossing-seam", "many-events-delivered-by-one-call", "history-with-push-from-callback"])

REASM_ASSUME = ["record types that end an event: PROCTITLE, <=1299, >=2100; EOE completes a buffered event",
                "the harness' Stream recorder and bookkeeping are trusted; the Reassembler is driven from one goroutine"]

prop("C01", [
    S(REASM, "^TestC01Regress$", kind="plain"),
    S(REASM, "^TestC01$", q=20000, t=200000, shards=16),
    S(REASM, "^TestC01Large$", kind="plain"),
], REASM_ASSUME, nontrivial_classes=["history-with-eviction-of-incomplete-event", "history-with-reused-sequence",
                                     "history-with-Push-parsed-record", "history-with-EOE-completion", "history-with-reentrant-calls"])

prop("C02", [
    S(REASM, "^TestC02Regress$", kind="plain"),
    S(REASM, "^TestC02$", q=20000, t=200000, shards=16),
    S(REASM, "^TestC02Large$", kind="plain"),
    S(REASM, "^TestC02Distance$", kind="plain"),
], REASM_ASSUME + ["sequence numbers of a history lie in one 2^24 window (stated by the property)"],
   nontrivial_classes=["history-with-out-of-order-buffering", "history-straddling-seam", "history-with-late-arrival", "history-with-push-from-eventslost"])

prop("C10", [
    S(REASM, "^TestC10(Timed)?Regress$", kind="plain"),
    S(REASM, "^TestC10$", q=20000, t=200000, shards=16),
    S(REASM, "^TestC10Timed$", q=3000, t=40000, shards=16),
    S(REASM, "^TestC10Large$", kind="plain", timeout_t=3000),
    S(REASM, "^TestC10HeldBack$", kind="plain"),
], REASM_ASSUME + ["TestC10: timeout is 1h or more so that expiry cannot be a cause (as the property's quantifier says)",
                   "TestC10Timed: finite timeouts and real sleeps; only 'the timeout had definitely not elapsed' is asserted (harness clock read around every call)",
                   "sequence numbers of a history lie in one 2^24 window"],
   nontrivial_classes=["history-with-overflow-eviction", "history-with-complete-event-waiting", "timed-history-with-idle-period-before-push",
                       "timed-history-with-delivery-after-possible-expiry", "large-buffer-history"])

prop("C19", [
    S(REASM, "^TestC19(StreamCloses|Nested)?Regress$", kind="plain"),
    S(REASM, "^TestC19$", q=4000, t=40000, shards=16),
    S(REASM, "^TestC19StreamCloses$", q=3000, t=40000, shards=16),
    S(REASM, "^TestC19Nested$", q=600, t=8000, shards=16),
    S(REASM, "^TestC19Large$", kind="plain", timeout_t=3000),
    S(REASM, "^TestC19LongSleeps$", kind="plain"),
], REASM_ASSUME + ["time is real: expiry is decided three-valued from harness clock brackets; only definite answers are asserted",
                   "what a push made after Close does itself is not asserted (only that later Maintain/Close fail and deliver nothing)"],
   nontrivial_classes=["history-with-timeout-only-delivery", "history-with-call-after-close", "history-with-push-after-close",
                       "decision-definitely-expired", "decision-definitely-live", "large-stale-buffer-history",
                       "stream-closes-while-call-has-more-to-deliver-and-2-events-are-buffered",
                       "nested-call-after-sleep-delivers-expired-events", "history-with-sleep-of-0.7s-or-more-under-a-long-timeout"])

PARSE = "props/parse"

prop("C04", [
    S(PARSE, "^TestC04Regress$", kind="plain"),
    S(PARSE, "^TestC04Types$", kind="plain"),
    S(PARSE, "^TestC04$", q=30000, t=300000, shards=16),
    S(PARSE, "^TestC04Concurrent$", kind="plain", q=150, t=5000),
    S(PARSE, "^TestC04Concurrent$", kind="plain", race=True, q=60, t=1500),
], ["milliseconds are written with three digits, as the kernel does",
    "malformed cases are only those that are malformed under any reading of the header grammar",
    "record type names are the library's own String() names (name<->number consistency is C20)"],
   nontrivial_classes=["valid-unknown-type", "valid-hostile-body", "valid-seq-ge-2^31", "malformed-trunc", "malformed-nomsg"])

prop("C05", [
    S(PARSE, "^TestC05Regress$", kind="plain"),
    S(PARSE, "^TestC05RepoLogs$", kind="plain"),
    S(PARSE, "^TestC05BodySoup$", kind="plain", timeout_t=3000),
    S(PARSE, "^TestC05HeaderSoup$", kind="plain"),
    S(PARSE, "^TestC05NumberSoup$", kind="plain", timeout_t=3000),
    S(PARSE, "^TestC05$", q=60000, t=1000000, shards=16, timeout_t=3000),
    S(PARSE, "", kind="fuzz", fuzz="FuzzParse", fuzztime_t=120),
    S(PARSE, "", kind="fuzz", fuzz="FuzzParseLogLine", fuzztime_t=120),
], ["absence of panics/hangs is sampled, not proved", "hang watchdog: 30 s per case for work that takes microseconds"],
   nontrivial_classes=["header-accepted", "header-soup-sweep", "body-soup-sweep", "number-soup-sweep", "enrich-type-1300", "enrich-type-1306", "enrich-type-1309", "enrich-type-1400", "enrich-type-1327"])

prop("C12", [
    S(PARSE, "^TestC12Regress$", kind="plain"),
    S(PARSE, "^TestC12Tables$", kind="plain"),
    S(PARSE, "^TestC12$", q=50000, t=1000000, shards=16, timeout_t=3000),
], ["values exclude what the property excludes (begin/end with a quote character, end in a backslash); inside msg='…' no single quote",
    "EXECVE arguments are not whole placeholders; IPv6 flowinfo < 2^28; unix paths non-abstract; IPs compared as addresses",
    "errno names come from the kernel header snapshot; arch/syscall names from the exported tables (what the property calls the published tables)"],
   nontrivial_classes=["hex-encoded-decoded-value", "derived-field", "kind-sockaddr", "kind-execve", "kind-proctitle", "kind-kthread"])

RULES = "props/rules"
OPS = ["operator-" + o for o in ["=", "!=", "<", ">", "<=", ">=", "&", "&="]]
CLASSES = ["field-class-" + c for c in ["num", "uid", "gid", "string", "exit", "exit-name", "msgtype", "msgtype-name", "msgtype-unknown",
                                       "arch", "perm", "filetype", "inode", "saddr_fam", "compare"]]

prop("C06", [
    S(RULES, "^TestC06Regress$", kind="plain"),
    S(RULES, "^TestC06Syscalls$", kind="plain"),
    S(RULES, "^TestC06Grid$", kind="plain"),
    S(RULES, "^TestC06$", q=30000, t=500000, shards=16, timeout_t=3000),
], ["UAPI constants and x86_64/i386/aarch64 syscall numbers come from the committed kernel header snapshot",
    "rejection is never demanded (the property speaks about accepted rules); whatever is accepted must decode to exactly what was asked",
    "flags route: a value never starts with '=' or an operator character, keys/syscalls contain no comma, no whitespace at the ends of values",
    "'-S all' stands alone"],
   nontrivial_classes=["accepted", "route-struct", "route-flags", "watch", "prepend", "accepted-with-60-or-more-filters"] + OPS + CLASSES)

prop("C07", [
    S(RULES, "^TestC07Regress$", kind="plain"),
    S(RULES, "^TestC07Syscalls$", kind="plain"),
    S(RULES, "^TestC07NumberSweeps$", kind="plain"),
    S(RULES, "^TestC07$", q=30000, t=1000000, shards=16, timeout_t=3000),
], ["string values: non-empty, no whitespace, none of ' \" \\ (ToCommandLine does not quote)",
    "rules with a perm filter use an existing scratch file for path= and an existing scratch directory for dir= (watch-shaped rules agree with the filesystem)",
    "runs on amd64 with resolveIds=false", "known finding arch-not-first-reordered: equality up to moving the arch triple to the front"],
   nontrivial_classes=["number-sweeps", "accepted", "operator-not-equal-sign", "id-ge-2^31", "arch-other-than-runtime", "numeric-syscall", "multi-key", "displayed-as-watch"])

prop("C13", [
    S(RULES, "^TestC13Regress$", kind="plain"),
    S(RULES, "^TestC13HeaderWords$", kind="plain", timeout_t=3000),
    S(RULES, "^TestC13ValueSweep$", kind="plain", timeout_t=3000),
    S(RULES, "^TestC13FieldCount$", kind="plain"),
    S(RULES, "^TestC13FieldValueGrid$", kind="plain"),
    S(RULES, "^TestC13$", q=40000, t=1000000, shards=16, timeout_t=3000),
    S(RULES, "", kind="fuzz", fuzz="FuzzToCommandLine", fuzztime_t=100),
    S(RULES, "", kind="fuzz", fuzz="FuzzFlagsParse", fuzztime_t=100),
    S(RULES, "", kind="fuzz", fuzz="FuzzBuild", fuzztime_t=100),
], ["typed-nil rule pointers are not Rule values and are not passed",
    "allocation bound: 1 MiB + 64 x input length per call, measured with runtime/metrics in a single-threaded section",
    "absence of panics is sampled, not proved; hang watchdog 30 s per case"],
   nontrivial_classes=["kind-build", "kind-decode", "kind-parse", "value-sweep", "field-value-grid", "arch-x-syscall-sweep", "passed-first-stage-build", "passed-first-stage-decode", "passed-first-stage-parse"])

prop("C14", [
    S(RULES, "^TestC14Regress$", kind="plain"),
    S(RULES, "^TestC14$", q=40000, t=1000000, shards=16, timeout_t=3000),
], ["acceptance is never demanded; whitespace at the ends of field/value/list items may be trimmed; empty list items may be dropped; a bare trailing '--' is tolerated",
    "'longest operator at that position' resolves the textual ambiguity of values that start with '='"],
   nontrivial_classes=["accepted", "rejected", "accepted-with-special-value", "junk-line-rejected"])

CLIENT = "props/client"

prop("C08", [
    S(CLIENT, "^TestC08Regress$", kind="plain"),
    S(CLIENT, "^TestC08Errnos$", kind="plain"),
    S(CLIENT, "^TestC08StatusValues$", kind="plain"),
    S(CLIENT, "^TestC08$", q=3000, t=12000, shards=16),
    S(CLIENT, "^TestC08RealTransport$", kind="plain", q=120, t=3000),
], ["the simulated kernel never hands out request sequence 0 (the kernel uses 0 for unsolicited events); what the library's own transport hands out is covered by the real-transport stage",
    "real-transport stage: rtnetlink in a private network namespace plays the kernel (every audit message type is refused with EOPNOTSUPP; unsolicited sequence-0 messages are address notifications caused by a raw socket); skipped without the privilege",
    "'identifies the errno' = errors.Is(err, errno), plus AddRule's documented 'rule exists' text for EEXIST",
    "at most 9 transient receive failures in a row (the property's bound); EAGAIN is rationed because the client sleeps 50 ms on it"],
   nontrivial_classes=["history-with-wrapped-receive-errors", "op-with-17-or-more-rules-of-realistic-size", "op-with-errno", "op-with-foreign-reply", "op-with-interleaved-events", "op-with-transient-failures", "op-with-fault-send", "op-with-fault-recv", "op-with-fault-shortack", "op-with-fault-acktype"] +
                      ["op-" + o for o in ["GetStatus", "GetRules", "AddRule", "DeleteRule", "DeleteRules", "SetPID", "SetRateLimit", "SetBacklogLimit",
                                            "SetEnabled", "SetImmutable", "SetFailure", "SetBacklogWaitTime"]])

prop("C16", [
    S(CLIENT, "^TestC16Regress$", kind="plain"),
    S(CLIENT, "^TestC16Constants$", kind="plain"),
    S(CLIENT, "^TestC16FieldValues$", kind="plain"),
    S(CLIENT, "^TestC16RealClients$", kind="plain"),
    S(CLIENT, "^TestC16Concurrent$", kind="plain", q=200, t=5000),
    S(CLIENT, "^TestC16Concurrent$", kind="plain", race=True, q=60, t=1000),
    S(CLIENT, "^TestC16$", q=20000, t=500000, shards=16),
], ["struct audit_status field offsets are written from the kernel header by hand; mask/feature bits and message types come from the header snapshot",
    "fields only partly covered by an odd-length buffer are not asserted",
    "real-clients stage: GetStatus (AUDIT_GET, which changes nothing) on the clients NewAuditClient and NewMulticastAuditClient return, against the kernel's audit socket; skipped without the privilege"],
   nontrivial_classes=["set-with-receive-error", "set-nonzero", "set-after-unacknowledged-set", "get", "get-repeated-on-one-client", "field-value-sweep", "set-long-run-without-waiting", "wire-too-short", "wire-decoded"] + ["set-" + s for s in
                       ["SetPID", "SetRateLimit", "SetBacklogLimit", "SetEnabled", "SetImmutable", "SetFailure", "SetBacklogWaitTime"]])

prop("C17", [
    S(CLIENT, "^TestC17Regress$", kind="plain"),
    S(CLIENT, "^TestC17$", q=5000, t=30000, shards=16),
    S(CLIENT, "^TestC17ConcurrentClose$", kind="plain", race=True, q=2000, t=100000),
    S(CLIENT, "^TestC17ConcurrentClose$", kind="plain", q=4000, t=200000),
], ["a synchronous request is never issued while ACKs are pending (the property does not say what happens)",
    "the return value of Close calls after the first is not asserted"],
   nontrivial_classes=["synchronous-request-whose-reply-cannot-be-read", "nowait-request-numbered-0", "history-with-error-among-acks", "history-with-2-nowait-and-2-waits", "history-with-repeated-close",
                       "history-close-after-setpid", "history-waitacks-after-close-with-pending", "history-close-after-calls-on-closed-client", "history-with-getrules-then-traffic", "concurrent-close", "history-close-with-failing-send"])

prop("C18", [
    S(CLIENT, "^TestC18Regress$", kind="plain"),
    S(CLIENT, "^TestC18Lengths$", kind="plain"),
    S(CLIENT, "^TestC18$", q=5000, t=100000, shards=4),
    S(CLIENT, "^TestC18Multicast$", kind="plain", q=200, t=20000),
    S(CLIENT, "^TestC18AuditClientBuffer$", kind="plain"),
    S(CLIENT, "^TestC18FlagSweep$", kind="plain"),
    S(CLIENT, "^TestC18SequenceWrap$", kind="plain"),
    S(CLIENT, "^TestC18Uevent$", kind="plain", q=60, t=3000),
    S(CLIENT, "^TestC18Concurrent$", kind="plain", race=True, q=200, t=5000),
    # the same stress without the race detector: its instrumentation changes the timing so much that
    # interleavings which give duplicate sequence numbers stop occurring
    S(CLIENT, "^TestC18Concurrent$", kind="plain", q=400, t=20000),
], ["needs AF_NETLINK sockets (the check is undecided without them)",
    "only side-effect-free requests: NETLINK_ROUTE message types above RTM_MAX with the REQUEST flag, which the kernel refuses with EOPNOTSUPP and echoes",
    "a zero-length datagram cannot be sent between netlink sockets (ENODATA); it is covered at parser level only",
    "uevent stage: synthetic 'change' events for the loopback device are requested through /sys/class/net/lo/uevent (a broadcast of text, as udevadm trigger causes; no device state changes); skipped where that is not possible",
    "sequence-wrap stage: the client's unexported counter is set just below 2^32 through reflection (nothing else could reach the wrap); skipped if the field is renamed",
    "flag sweep: a second socket on NETLINK_AUDIT, messages of the unknown type 1098 with every value of nlmsg_flags (the audit subsystem refuses the type with EINVAL before it looks at anything else and echoes the message)",
    "audit-client stage: one socket on NETLINK_AUDIT, requests of the unknown message type 1098 only (refused with EINVAL before the audit subsystem looks at anything else; no state is read or changed)",
    "multicast stage: addresses are added to and removed from the loopback device of a private network namespace (unshare on one locked thread); without the privilege the stage is skipped and its class stays empty"],
   nontrivial_classes=["flags-without-request-bit-echoed", "send-echoed", "send-reply-fills-read-buffer-exactly", "foreign-header-sized-refused", "foreign-short-refused", "parser-short", "parser-ok", "concurrent-batch", "concurrent-batch-with-failing-sends", "client-port-id-differs-from-process-id"])

COAL = "props/coalesce"

prop("C09", [
    S(COAL, "^TestC09Regress$", kind="plain"),
    S(COAL, "^TestC09Modes$", kind="plain", timeout_t=3000),
    S(COAL, "^TestC09$", q=8000, t=100000, shards=16),
], ["device may be rdev or dev; S_IFMT values outside the seven valid file types are unasserted for the object type",
    "'present somewhere' is location-agnostic for unique tokens; fixed-vocabulary values are checked under their key (or socket_<key>, result, session)",
    "known finding filetype-nonregular-as-file is matched by its exact shape (valid non-regular type reported as 'file')"],
   nontrivial_classes=["degenerate-group-refused", "file-summary-checked", "key-collision", "mode-sweep-valid-type", "records-1", "records-3"])

prop("C15", [
    S(COAL, "^TestC15Regress$", kind="plain"),
    S(COAL, "^TestC15$", q=3000, t=25000, shards=16),
    S(COAL, "^TestC15CacheChurn$", kind="plain", timeout_t=3000),
    S(COAL, "^TestC15TableIsolation$", kind="plain"),
    S(COAL, "^TestC15FirstSight$", kind="plain", race=True, q=20, t=300),
    S(COAL, "^TestC15FirstSight$", kind="plain", q=40, t=1000),
    S(COAL, "^TestC15SameID$", kind="plain", race=True, q=100, t=2000),
    S(COAL, "^TestC15SameID$", kind="plain", q=300, t=20000),
    S(COAL, "^TestC15Concurrent$", kind="plain", race=True, q=300, t=10000, timeout_t=3000),
    S(COAL, "^TestC15Concurrent$", kind="plain", q=300, t=10000, timeout_t=3000),
], ["events are compared as deep copies with warnings by text; nil and empty containers are not distinguished",
    "ResolveIDs is meant to change the event it is given; that event's snapshot is refreshed, all others must stay equal"],
   nontrivial_classes=["history-with-repeated-coalescing-of-stateful-group", "history-with-2-live-events", "concurrent-round", "first-sight-round", "cache-churn", "table-isolation-sweep"])

TABLES = "props/tables"

prop("C20", [
    S(TABLES, "^TestFirstUseC20$", kind="plain"),
    S(TABLES, "^TestC20", kind="plain"),
], ["internal consistency only, as the property states; agreement with the kernel headers is informational here and enforced by C06 / C12 / C16",
    "the name->type table is read from the generated source file of the working tree (it is not exported)"],
   nontrivial_classes=["table-first-use", "table-syscall-displayed", "table-syscall-resolved", "table-errno-displayed", "table-normalization-compound", "table-record-type", "table-record-type-name", "table-errno-number", "table-errno-name", "table-arch", "table-syscall",
                       "table-rule-field", "table-rule-operator", "table-rule-comparison", "table-normalization-syscall", "table-normalization-record-type"])

prop("C11", [
    S(REASM, "^TestC11Regress$", kind="plain"),
    S(REASM, "^TestC11$", q=3000, t=50000, shards=16),
    S(REASM, "^TestC11Exhaustive$", kind="plain", q=20000, t=2000000, shards=16, timeout_t=3300),
    S(REASM, "^TestC11Stress$", kind="plain", race=True, q=40, t=3000, timeout_t=3000),
    S(REASM, "^TestC11Stress$", kind="plain", q=400, t=20000, timeout_t=3000),
    S(REASM, "^TestC11CloseVsPush$", kind="plain", q=6000, t=400000, timeout_t=3000),
    S(REASM, "^TestC11CloseVsPush$", kind="plain", race=True, q=1500, t=60000, timeout_t=3000),
], ["interleavings are at the granularity of the library's atomic steps (the yield points of the verif hook); races inside a step are only sampled by the race-detector stress",
    "a deadlock is declared only when every worker has been released from the scheduler and nobody finishes within 10 s",
    "'Close invoked' = the moment the first Close call of any kind (worker or re-entrant) is entered; exact under the controlled scheduler"],
   nontrivial_classes=["schedule-with-preemption-and-delivery", "program-enumerated-exhaustively", "stress-round", "close-vs-push-attempt"])
