# Stage tables: one block per property. Executed by check.py (S and prop are defined there).

REASM = "props/reasm"

prop("C03", [
    S(REASM, "^TestC03Regress$", kind="plain"),
    S(REASM, "^TestC03$", q=20000, t=200000, shards=16),
], ["sequence numbers of a history lie in one 2^24 window (stated by the property)",
    "'in-order' means after the last in-order delivered event (C02's notion of a late arrival)",
    "record types that end an event: PROCTITLE, <=1299, >=2100; EOE completes a buffered event"],
   nontrivial_classes=["history-with-loss", "history-with-late-or-duplicate-delivery", "history-crossing-seam"])
