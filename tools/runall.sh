#!/bin/sh
# usage: tools/runall.sh <tier> <seed> [parallel]  — runs every claimed check, prints one line per check
tier=${1:-quick}; seed=${2:-1}; par=${3:-1}
cd /verif
ids=$(python3 -c "import json; print(' '.join(c['property_id'] for c in json.load(open('MANIFEST.json'))['checks']))")
run() { out=$(VERIF_SEED=$seed python3 check.py $1 --tier $tier 2>&1); rc=$?; echo "$1 rc=$rc $(echo "$out" | grep -v '^KNOWN' | tail -1 | cut -c1-160)"; }
if [ "$par" = "1" ]; then for i in $ids; do run $i; done; else for i in $ids; do run $i & done; wait; fi
