#!/usr/bin/env python3
"""Sensitivity helper: apply one textual mutation to /repo's working tree, run the pinned
suite of the touched package(s) and the quick tier of the named checks, revert, log.

  tools/mut.py <name> <ids,comma> <file> <old> <new> [--count N] [--nosuite]
"""
import json, os, subprocess, sys, time

def main():
    a = sys.argv[1:]
    nosuite = "--nosuite" in a
    if nosuite: a.remove("--nosuite")
    cnt = 1
    if "--count" in a:
        i = a.index("--count"); cnt = int(a[i+1]); del a[i:i+2]
    name, ids, f, old, new = a[:5]
    path = os.path.join("/repo", f)
    src = open(path).read()
    if src.count(old) != cnt:
        print("pattern count %d != %d" % (src.count(old), cnt)); return 2
    env = dict(os.environ, GOFLAGS="-mod=mod", GOPROXY="off", GOSUMDB="off", GOTOOLCHAIN="local")
    res = dict(name=name, file=f, checks={})
    try:
        open(path, "w").write(src.replace(old, new))
        b = subprocess.run(["go", "build", "./..."], cwd="/repo", env=env, capture_output=True, text=True)
        if b.returncode != 0:
            print("does not compile:\n" + b.stderr[-2000:]); return 2
        if not nosuite:
            t = subprocess.run(["go", "test", "-vet=off", "-count=1", "./..."], cwd="/repo", env=env, capture_output=True, text=True)
            res["suite"] = "pass" if t.returncode == 0 else "FAIL"
            if t.returncode != 0:
                print("suite:", [l for l in t.stdout.splitlines() if l.startswith(("---", "FAIL"))][:6])
        for pid in ids.split(","):
            t0 = time.time()
            c = subprocess.run(["python3", "/verif/check.py", pid], env=env, capture_output=True, text=True)
            last = [l for l in c.stdout.splitlines() if l.startswith(("VIOLATION", "OK", "UNDECIDED", "KNOWN"))]
            res["checks"][pid] = dict(rc=c.returncode, wall=round(time.time()-t0, 1), line=(last[-1] if last else c.stdout[-300:]))
            print(pid, c.returncode, res["checks"][pid]["line"][:200])
    finally:
        open(path, "w").write(src)
    with open("/verif/notes/sensitivity.jsonl", "a") as lf:
        lf.write(json.dumps(res) + "\n")
    print("suite:", res.get("suite"))
    return 0

sys.exit(main())
