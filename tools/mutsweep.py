#!/usr/bin/env python3
"""tools/mutsweep.py K BUDGET_MIN [file-substring...] — automatic mutation sweep.

Generates small textual mutants (relational boundary, ==/!=, &&/||, +-1 on integer literals, dropped
negation, break/continue, return err -> return nil, deleted simple statement) of the library's anchored
source files, and for each one, in a scratch worktree of /repo + scratch copy of /verif (never /repo or
/verif themselves; K workers in parallel under /tmp/ms):
  1. go build ./... (and -tags verif)   — mutants that do not compile are dropped
  2. the pinned suite (go test -vet=off -count=1 ./...) — mutants the suite kills are not interesting
  3. the quick tier of the checks mapped to the file, in order, until one reports a violation
A mutant that survives 2 and all of 3 is a SURVIVOR: either equivalent (no property says anything about it)
or a blind spot. Results are appended to notes/mutsweep.jsonl; survivors are triaged by hand (DESIGN.md 8).
Deterministic: mutants are enumerated in file order and sampled round-robin across files with a fixed stride.
"""
import json
import os
import queue
import re
import shutil
import subprocess
import sys
import threading
import time

ROOT = os.path.dirname(os.path.dirname(os.path.abspath(__file__)))
K = int(sys.argv[1])
BUDGET = float(sys.argv[2]) * 60
want = sys.argv[3:]
BASE = "/tmp/ms"
LOG = os.path.join(ROOT, "notes", "mutsweep.jsonl")
env = dict(os.environ, GOFLAGS="-mod=mod", GOPROXY="off", GOSUMDB="off", GOTOOLCHAIN="local")

FILES = {
    "reassembler.go": ["C01", "C03", "C02", "C10", "C19", "C11"],
    "auparse/auparse.go": ["C04", "C12", "C05", "C09"],
    "auparse/hex.go": ["C12", "C05"],
    "auparse/sockaddr.go": ["C12", "C05"],
    "rule/rule.go": ["C06", "C07", "C13"],
    "rule/binary.go": ["C07", "C06", "C13"],
    "rule/flags/flags.go": ["C14", "C06", "C13"],
    "audit.go": ["C08", "C16", "C17"],
    "netlink.go": ["C18", "C17", "C08"],
    "aucoalesce/coalesce.go": ["C09", "C15"],
    "aucoalesce/normalize.go": ["C20", "C09", "C15"],
    "aucoalesce/id_lookup.go": ["C15", "C09"],
    "aucoalesce/event_type.go": ["C20", "C09"],
}

ROOTFILES = ("audit.go", "netlink.go", "reassembler.go")

SUBS = [
    (r" < ", " <= "), (r" <= ", " < "), (r" > ", " >= "), (r" >= ", " > "),
    (r" == ", " != "), (r" != ", " == "), (r" && ", " || "), (r" \|\| ", " && "),
    (r" \+ ", " - "), (r" - ", " + "),
    (r"\bbreak\b", "continue"), (r"\bcontinue\b", "break"),
    (r"if !", "if "), (r"return err\b", "return nil"), (r"\btrue\b", "false"), (r"\bfalse\b", "true"),
    (r"\+\+", "--"), (r"\[1:\]", "[2:]"), (r"\[0\]", "[1]"), (r"\[:0\]", "[:1]"),
]
INT = re.compile(r"(?<![\w.\"'x])(\d{1,5})(?![\w.\"'])")


def in_string(line, pos):
    q = False
    bt = False
    i = 0
    while i < pos:
        c = line[i]
        if c == "\\" and q:
            i += 2
            continue
        if c == '"' and not bt:
            q = not q
        elif c == "`" and not q:
            bt = not bt
        i += 1
    return q or bt


def mutants_of(path, rel):
    src = open(path).read().split("\n")
    out = []
    depth_const = False
    for n, line in enumerate(src):
        s = line.strip()
        if s.startswith("const (") or s.startswith("var ("):
            depth_const = True
        if depth_const:
            if s == ")":
                depth_const = False
            continue
        if not s or s.startswith("//") or "verifYield" in s or s.startswith("import") or s.startswith("package"):
            continue
        code = line.split("//")[0] if '"' not in line else line
        for pat, rep in SUBS:
            for m in re.finditer(pat, code):
                if in_string(code, m.start()):
                    continue
                new = code[:m.start()] + rep + code[m.end():]
                out.append((rel, n, "%s->%s" % (pat.strip(), rep.strip()), new))
        for m in INT.finditer(code):
            if in_string(code, m.start()):
                continue
            v = int(m.group(1))
            for nv in ([v + 1, v - 1] if v > 0 else [1]):
                new = code[:m.start()] + str(nv) + code[m.end():]
                out.append((rel, n, "%d->%d" % (v, nv), new))
        # statement deletion: a line that is a plain call, assignment (not declaration) or inc/dec
        if re.match(r"^[\w.\[\]\(\)\*]+(\([^)]*\))?\s*(=|\+=|-=|\|=|&=)\s*[^=]", s) or re.match(r"^[\w.]+\(.*\)$", s) or s.endswith("++") or s.endswith("--"):
            if not s.startswith(("return", "defer", "go ", "if ", "for ", "case ", "func ")) and ":=" not in s:
                out.append((rel, n, "delete", ""))
    return out


def sh(cmd, **kw):
    return subprocess.run(cmd, capture_output=True, text=True, **kw)


allm = {}
for rel in FILES:
    if want and not any(w in rel for w in want):
        continue
    allm[rel] = mutants_of(os.path.join("/repo", rel), rel)
done = set()
if os.path.exists(LOG):
    for l in open(LOG):
        try:
            r = json.loads(l)
            done.add((r["file"], r["line"], r["op"], r["new"]))
        except Exception:
            pass
# round-robin across files, stride through each file's list so early stops still spread over the file
order = []
STRIDE = 7
lists = {}
for rel, ms in allm.items():
    idx = [i for s in range(STRIDE) for i in range(s, len(ms), STRIDE)]
    lists[rel] = [ms[i] for i in idx]
i = 0
while any(lists.values()):
    for rel in list(lists):
        if lists[rel]:
            m = lists[rel].pop(0)
            if (m[0], m[1], m[2], m[3].strip()) not in done:
                order.append(m)
jobs = queue.Queue()
for m in order:
    jobs.put(m)
print("mutants enumerated:", {k: len(v) for k, v in allm.items()}, "to run:", len(order), flush=True)

lock = threading.Lock()
T0 = time.time()
stats = dict(nocompile=0, suite=0, caught=0, survived=0)


def worker(k):
    r, v = "%s/r%d" % (BASE, k), "%s/v%d" % (BASE, k)
    assert sh(["git", "-C", "/repo", "worktree", "add", "--detach", "-q", r, "HEAD"]).returncode == 0
    sh(["rsync", "-a", "--exclude", ".git", "--exclude", "seeded", "--exclude", "evidence", "--exclude", "replays", ROOT + "/", v + "/"])
    os.makedirs(v + "/evidence", exist_ok=True)
    os.makedirs(v + "/replays", exist_ok=True)
    gm = open(v + "/go.mod").read().replace("=> /repo", "=> " + r)
    open(v + "/go.mod", "w").write(gm)
    for f in sh(["grep", "-rl", '"/repo/', v + "/props", v + "/internal"]).stdout.split():
        if f.endswith(".go"):
            src = open(f).read().replace('"/repo/', '"' + r + '/')
            open(f, "w").write(src)
    while time.time() - T0 < BUDGET:
        try:
            rel, n, op, new = jobs.get_nowait()
        except queue.Empty:
            return
        path = os.path.join(r, rel)
        orig = open(path).read()
        lines = orig.split("\n")
        old = lines[n]
        lines[n] = new
        res = dict(file=rel, line=n, op=op, old=old.strip(), new=new.strip(), checks={})
        try:
            open(path, "w").write("\n".join(lines))
            if sh(["go", "build", "./..."], cwd=r, env=env).returncode != 0 or sh(["go", "build", "-tags", "verif", "./..."], cwd=r, env=env).returncode != 0:
                res["status"] = "nocompile"
            else:
                if rel in ROOTFILES:
                    # the root package's client tests talk to the real kernel (one audit daemon slot, shared rule list):
                    # one worker at a time, and a second try when somebody else's run got in the way
                    cmd = "flock /tmp/kernel-suite.lock go test -vet=off -count=1 -timeout 120s ./..."
                    t = sh(cmd, cwd=r, env=env, shell=True)
                    if t.returncode != 0:
                        t = sh(cmd, cwd=r, env=env, shell=True)
                else:
                    t = sh("go test -vet=off -count=1 -timeout 120s ./auparse/... ./aucoalesce/... ./rule/... ./internal/... && "
                           "go test -vet=off -count=1 -timeout 120s -run 'TestReassembler|TestSequenceNumSliceSort|TestRuleParsing|TestAuditStatus|TestAuditFeatureBitmap' .",
                           cwd=r, env=env, shell=True)
                if t.returncode != 0:
                    res["status"] = "suite"
                else:
                    res["status"] = "survived"
                    for c in FILES[rel]:
                        t1 = time.time()
                        p = sh(["python3", v + "/check.py", c], env=env, cwd=v)
                        last = [l for l in p.stdout.splitlines() if l.startswith(("VIOLATION", "OK", "UNDECIDED"))]
                        res["checks"][c] = dict(rc=p.returncode, wall=round(time.time() - t1, 1), line=(last[-1] if last else (p.stdout + p.stderr)[-200:])[:200])
                        if p.returncode == 1:
                            res["status"] = "caught"
                            res["by"] = c
                            break
        finally:
            open(path, "w").write(orig)
            sh(["git", "-C", r, "checkout", "--", "."])
        with lock:
            stats[res["status"]] += 1
            with open(LOG, "a") as lf:
                lf.write(json.dumps(res) + "\n")
            if res["status"] in ("survived", "caught"):
                print("%-9s %s:%d %s | %s  =>  %s %s" % (res["status"].upper(), rel, n + 1, op, res["old"][:70], res["new"][:70], res.get("by", "")), flush=True)


os.makedirs(BASE, exist_ok=True)
ts = [threading.Thread(target=worker, args=(k,)) for k in range(K)]
for t in ts:
    t.start()
for t in ts:
    t.join()
for k in range(K):
    sh(["git", "-C", "/repo", "worktree", "remove", "--force", "%s/r%d" % (BASE, k)])
sh(["git", "-C", "/repo", "worktree", "prune"])
shutil.rmtree(BASE, ignore_errors=True)
print("done", stats, "in %ds" % (time.time() - T0))
