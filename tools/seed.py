#!/usr/bin/env python3
"""Confirm and record a seeded breaking change produced by a sub-agent.

  tools/seed.py <ID> <out-dir> [--checks C01,C02] [--name NAME]

1. in a fresh scratch worktree of /repo (outside /repo and /verif): apply patch.diff, run the pinned suite
   (must pass), copy the demo in (must fail); revert the patch (demo must pass); remove the worktree;
2. apply the patch to /repo's working tree, run the quick tier of the listed checks (default: the property's
   own check), undo with git checkout;
3. store patch.diff, the demo and meta.json (plus what was run and what each check said) under seeded/<name>/.
"""
import json, os, re, shutil, subprocess, sys, tempfile, time

ENV = dict(os.environ, GOFLAGS="-mod=mod", GOPROXY="off", GOSUMDB="off", GOTOOLCHAIN="local")

def sh(cmd, cwd=None, timeout=1800):
    p = subprocess.run(cmd, cwd=cwd, env=ENV, shell=isinstance(cmd, str), capture_output=True, text=True, timeout=timeout)
    return p.returncode, p.stdout + p.stderr

def main():
    a = sys.argv[1:]
    pid, out = a[0], a[1]
    checks = [pid]
    name = pid
    if "--checks" in a: checks = a[a.index("--checks") + 1].split(",")
    if "--name" in a: name = a[a.index("--name") + 1]
    tags = ["-tags", a[a.index("--tags") + 1]] if "--tags" in a else []
    patch = os.path.join(out, "patch.diff")
    demo = os.path.join(out, "demo_test.go")
    meta = json.load(open(os.path.join(out, "meta.json"))) if os.path.exists(os.path.join(out, "meta.json")) else {}
    first = open(demo).readline()
    src = open(demo).read()
    m = re.search(r"^package\s+(\w+)", src, re.M)
    pkg = m.group(1)
    # directory: from the first-line comment or from the package name
    d = None
    for cand in ["rule/flags", "aucoalesce", "auparse", "rule"]:
        if cand in first: d = cand; break
    if d is None:
        d = {"libaudit": ".", "libaudit_test": ".", "auparse": "auparse", "auparse_test": "auparse", "aucoalesce": "aucoalesce", "aucoalesce_test": "aucoalesce",
             "rule": "rule", "rule_test": "rule", "flags": "rule/flags", "flags_test": "rule/flags"}[pkg]
    wt = tempfile.mkdtemp(prefix="seedwt-")
    os.rmdir(wt)
    rec = dict(property=pid, name=name, demo_dir=d, ran=[])
    try:
        rc, o = sh(["git", "-C", "/repo", "worktree", "add", "--detach", "-q", wt, "HEAD"]); assert rc == 0, o
        rc, o = sh(["git", "apply", patch], cwd=wt); assert rc == 0, "patch does not apply: " + o
        rc, o = sh("go build ./... && flock /tmp/kernel-suite.lock go test -vet=off -count=1 ./...", cwd=wt)
        if rc != 0:  # kernel-facing tests are occasionally disturbed by other runs
            rc, o = sh("flock /tmp/kernel-suite.lock go test -vet=off -count=1 ./...", cwd=wt)
        rec["suite_with_patch"] = "pass" if rc == 0 else "FAIL"
        rec["ran"].append("git apply patch.diff && go build ./... && go test -vet=off -count=1 ./...  -> " + rec["suite_with_patch"])
        if rc != 0: print(o[-3000:])
        dst = os.path.join(wt, d, "zz_seed_demo_test.go")
        shutil.copy(demo, dst)
        rc1, o1 = sh(["flock", "/tmp/kernel-suite.lock", "go", "test"] + tags + ["-vet=off", "-count=1", "-run", "Demo|Seed|C%s|Test" % pid[1:], "./" + d], cwd=wt)
        rec["demo_with_patch"] = "fails" if rc1 != 0 else "PASSES"
        os.remove(dst)
        rc, o = sh(["git", "checkout", "--", "."], cwd=wt); assert rc == 0
        shutil.copy(demo, dst)
        rc2, o2 = sh(["flock", "/tmp/kernel-suite.lock", "go", "test"] + tags + ["-vet=off", "-count=1", "-run", "Demo|Seed|C%s|Test" % pid[1:], "./" + d], cwd=wt)
        rec["demo_without_patch"] = "passes" if rc2 == 0 else "FAILS"
        if rc2 != 0: print(o2[-2000:])
        rec["ran"].append("demo test (go test %s) in ./%s with patch -> %s; without patch -> %s" % (" ".join(tags), d, rec["demo_with_patch"], rec["demo_without_patch"]))
    finally:
        sh(["git", "-C", "/repo", "worktree", "remove", "--force", wt])
        shutil.rmtree(wt, ignore_errors=True)
    confirmed = rec.get("suite_with_patch") == "pass" and rec.get("demo_with_patch") == "fails" and rec.get("demo_without_patch") == "passes"
    rec["confirmed"] = confirmed
    print(json.dumps({k: v for k, v in rec.items() if k != "ran"}))
    if not confirmed:
        return 1
    # run the checks against the change
    rc, o = sh(["git", "-C", "/repo", "status", "--porcelain"]); assert o.strip() == "", "/repo is not clean: " + o
    rec["checks"] = {}
    try:
        rc, o = sh(["git", "-C", "/repo", "apply", patch]); assert rc == 0, o
        for c in checks:
            t0 = time.time()
            rc, o = sh(["python3", "/verif/check.py", c], cwd="/verif")
            line = [l for l in o.splitlines() if l.startswith(("VIOLATION", "OK", "UNDECIDED"))]
            why = ""
            mm = re.search(r"replay=(\S+case\.json)", o)
            if mm and os.path.exists(mm.group(1)):
                try: why = json.load(open(mm.group(1))).get("why", "")[:700]
                except Exception: pass
            rec["checks"][c] = dict(rc=rc, wall_s=round(time.time() - t0, 1), line=line[-1] if line else o[-200:], why=why)
            print(c, rc, (line[-1] if line else "")[:150]); print("   ", why[:300].replace("\n", " | "))
    finally:
        sh(["git", "-C", "/repo", "checkout", "--", "."])
    rec["ran"].append("git -C /repo apply patch.diff; python3 check.py <id> for %s; git -C /repo checkout -- ." % ",".join(checks))
    sd = os.path.join("/verif/seeded", name)
    os.makedirs(sd, exist_ok=True)
    shutil.copy(patch, os.path.join(sd, "patch.diff"))
    shutil.copy(demo, os.path.join(sd, "demo_test.go.txt"))
    meta_out = dict(property=pid, summary=meta.get("summary", ""), needs=meta.get("needs", ""), agent_verified=meta.get("verified", ""),
                    demo_goes_into="./" + d, confirmed_by_me=rec["ran"], suite_with_patch=rec["suite_with_patch"],
                    demo_with_patch=rec["demo_with_patch"], demo_without_patch=rec["demo_without_patch"], checks=rec["checks"])
    json.dump(meta_out, open(os.path.join(sd, "meta.json"), "w"), indent=1)
    return 0

sys.exit(main())
