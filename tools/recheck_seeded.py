#!/usr/bin/env python3
"""tools/recheck_seeded.py [ids...] — re-run the quick checks against every seeded change under seeded/
(apply patch to /repo, run the checks that caught it when it was recorded, undo) and report the ones that
are no longer caught. Does not re-run the pinned suite or the demonstrations (tools/seed.py did)."""
import glob
import json
import os
import subprocess
import sys
import time

ROOT = os.path.dirname(os.path.dirname(os.path.abspath(__file__)))
want = sys.argv[1:]
env = dict(os.environ, GOFLAGS="-mod=mod", GOPROXY="off", GOSUMDB="off", GOTOOLCHAIN="local")
lost = []
for d in sorted(glob.glob(os.path.join(ROOT, "seeded", "*"))):
    name = os.path.basename(d)
    try:
        m = json.load(open(d + "/meta.json"))
    except Exception:
        continue
    if want and m["property"] not in want:
        continue
    caught = [k for k, v in m.get("checks", {}).items() if v.get("rc") == 1]
    if not caught:
        print(name, "was never caught (recorded so)")
        continue
    assert subprocess.run(["git", "-C", "/repo", "status", "--short"], capture_output=True, text=True).stdout.strip() == "", "/repo is not clean"
    if subprocess.run(["git", "-C", "/repo", "apply", d + "/patch.diff"]).returncode != 0:
        print(name, "patch does not apply any more")
        continue
    try:
        res = {}
        for c in caught[:1]:
            t0 = time.time()
            p = subprocess.run(["python3", os.path.join(ROOT, "check.py"), c], capture_output=True, text=True, env=env, cwd=ROOT)
            res[c] = (p.returncode, round(time.time() - t0))
    finally:
        subprocess.run(["git", "-C", "/repo", "checkout", "--", "."])
    ok = all(rc == 1 for rc, _ in res.values())
    print(name, res, "" if ok else "<<<<<< NOT CAUGHT", flush=True)
    if not ok:
        lost.append(name)
print("no longer caught:", lost)
