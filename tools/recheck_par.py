#!/usr/bin/env python3
"""tools/recheck_par.py K [ids...] — like recheck_seeded.py, but K workers in parallel, none of them touching
/repo or /verif: worker k gets a scratch worktree of /repo (/tmp/rp/r<k>) and a copy of /verif (/tmp/rp/v<k>)
whose go.mod replace directive points at that worktree. Everything under /tmp/rp is removed at the end."""
import glob
import json
import os
import queue
import shutil
import subprocess
import sys
import threading
import time

ROOT = os.path.dirname(os.path.dirname(os.path.abspath(__file__)))
K = int(sys.argv[1])
want = sys.argv[2:]
BASE = "/tmp/rp"
env = dict(os.environ, GOFLAGS="-mod=mod", GOPROXY="off", GOSUMDB="off", GOTOOLCHAIN="local")


def sh(cmd, **kw):
    return subprocess.run(cmd, capture_output=True, text=True, **kw)


jobs = queue.Queue()
for d in sorted(glob.glob(os.path.join(ROOT, "seeded", "*"))):
    try:
        m = json.load(open(d + "/meta.json"))
    except Exception:
        continue
    if want and m["property"] not in want and os.path.basename(d) not in want:
        continue
    caught = [k for k, v in m.get("checks", {}).items() if v.get("rc") == 1]
    if caught:
        jobs.put((d, caught[0]))
    else:
        print(os.path.basename(d), "was never caught (recorded so)")

lost, gone = [], []
lock = threading.Lock()


def worker(k):
    r, v = "%s/r%d" % (BASE, k), "%s/v%d" % (BASE, k)
    assert sh(["git", "-C", "/repo", "worktree", "add", "--detach", "-q", r, "HEAD"]).returncode == 0
    sh(["rsync", "-a", "--exclude", ".git", "--exclude", "seeded", "--exclude", "evidence", "--exclude", "replays", ROOT + "/", v + "/"])
    os.makedirs(v + "/evidence", exist_ok=True)
    os.makedirs(v + "/replays", exist_ok=True)
    gm = open(v + "/go.mod").read().replace("=> /repo", "=> " + r)
    open(v + "/go.mod", "w").write(gm)
    for f in sh(["grep", "-rl", '"/repo/', v + "/props", v + "/internal"]).stdout.split():  # files the harness reads from the tree
        if f.endswith(".go"):
            src = open(f).read().replace('"/repo/', '"' + r + '/')
            open(f, "w").write(src)
    while True:
        try:
            d, c = jobs.get_nowait()
        except queue.Empty:
            return
        name = os.path.basename(d)
        if sh(["git", "-C", r, "apply", d + "/patch.diff"]).returncode != 0:
            with lock:
                print(name, "patch does not apply any more", flush=True)
                gone.append(name)
            continue
        t0 = time.time()
        try:
            p = sh(["python3", v + "/check.py", c], env=env, cwd=v)
        finally:
            sh(["git", "-C", r, "checkout", "--", "."])
            sh(["git", "-C", r, "clean", "-fdq"])
        with lock:
            ok = p.returncode == 1
            print(name, c, "rc=%d" % p.returncode, "%ds" % (time.time() - t0), "" if ok else "<<<<<< NOT CAUGHT", flush=True)
            if not ok:
                lost.append(name)
                print("   ", (p.stdout + p.stderr).strip().splitlines()[-3:], flush=True)


os.makedirs(BASE, exist_ok=True)
ts = [threading.Thread(target=worker, args=(k,)) for k in range(K)]
for t in ts:
    t.start()
for t in ts:
    t.join()
for k in range(K):
    sh(["git", "-C", "/repo", "worktree", "remove", "--force", "%s/r%d" % (BASE, k)])
sh(["git", "-C", "/repo", "worktree", "prune"])
shutil.rmtree(BASE, ignore_errors=True)
print("patches that no longer apply:", gone)
print("no longer caught:", lost)
