#!/bin/sh
# usage: tools/devcheck.sh <slot> <patch.diff> <ID> — run the quick tier of one check against a patch in a scratch
# worktree of /repo and a scratch copy of /verif (/tmp/dev/<slot>/{r,v}); never touches /repo. Slot = any name.
slot=$1; patch=$2; id=$3
export GOFLAGS=-mod=mod GOPROXY=off GOSUMDB=off GOTOOLCHAIN=local
d=/tmp/dev/$slot; r=$d/r; v=$d/v
mkdir -p $d
[ -d $r ] || git -C /repo worktree add --detach -q $r HEAD
git -C $r checkout -q -- . ; git -C $r clean -fdq
rsync -a --delete --exclude .git --exclude seeded --exclude evidence --exclude replays /verif/ $v/
mkdir -p $v/evidence $v/replays
sed -i "s|=> /repo|=> $r|" $v/go.mod
for f in $(grep -rl '"/repo/' $v/props $v/internal | grep '\.go$'); do sed -i "s|\"/repo/|\"$r/|g" $f; done
if [ -n "$patch" ] && [ "$patch" != "-" ]; then git -C $r apply $patch || exit 3; fi
cd $v && python3 check.py $id; rc=$?
git -C $r checkout -q -- .
echo "devcheck rc=$rc"
