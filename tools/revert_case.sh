#!/bin/sh
# usage: tools/revert_case.sh <fix-commit> <ID> <name> : revert one fix in /repo's working tree,
# run the quick check, save the shrunk failing case as regress/<ID>/<name>.json, restore /repo.
set -e
c=$1; id=$2; name=$3
cd /repo && git diff $c~1 $c > /tmp/fix-$c.diff && git apply -R /tmp/fix-$c.diff
cd /verif && out=$(python3 check.py $id | grep -v KNOWN | tail -1)
cd /repo && git checkout -q -- . && rm -f /tmp/fix-$c.diff
echo "$out"
case "$out" in
  *replays/*case.json*) f=$(echo "$out" | sed 's/.*replay=//'); mkdir -p /verif/regress/$id; cp "$f" /verif/regress/$id/$name.json; python3 -c "import json,sys; print(json.load(open(sys.argv[1]))['why'][:400])" /verif/regress/$id/$name.json;;
esac
