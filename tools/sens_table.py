#!/usr/bin/env python3
"""Renders notes/sensitivity.jsonl (tools/mut.py log) and seeded/*/meta.json as markdown tables (stdout)."""
import glob, json, os
rows = {}
for l in open('/verif/notes/sensitivity.jsonl'):
    r = json.loads(l); rows[r['name']] = r
print("| mutant | file | pinned suite | quick checks run against it |")
print("|---|---|---|---|")
for n, r in rows.items():
    ch = ', '.join('%s **%s** (%.0f s)' % (k, 'VIOLATION' if v['rc'] == 1 else ('silent' if v['rc'] == 0 else 'undecided'), v.get('wall', 0)) for k, v in r['checks'].items())
    suite = {'pass': 'passes', 'FAIL': 'fails (suite catches it too)', None: 'not run'}[r.get('suite')]
    print("| %s | %s | %s | %s |" % (n, r['file'], suite, ch))
print()
print("| seeded change | property | what it needs to manifest | checks run against it |")
print("|---|---|---|---|")
for f in sorted(glob.glob('/verif/seeded/*/meta.json')):
    m = json.load(open(f))
    ch = ', '.join('%s **%s**' % (k, 'VIOLATION' if v['rc'] == 1 else ('silent' if v['rc'] == 0 else 'undecided')) for k, v in m['checks'].items())
    print("| seeded/%s | %s | %s | %s |" % (os.path.basename(os.path.dirname(f)), m['property'], (m.get('needs') or m.get('summary', ''))[:260].replace('\n', ' ').replace('|', '/'), ch))
