#!/usr/bin/env python3
"""tools/mkround.py <N> [ids...] — prepare round N of seeded changes under /tmp/wtN.

For every property: a scratch git worktree /tmp/wtN/Cxx of /repo (HEAD), and /tmp/wtN/out-Cxx/ with
PROPERTY.txt (the text of the property, nothing else from /verif) and PROMPT.txt (the task for a fresh
sub-agent, incl. one-paragraph summaries of the changes earlier rounds produced, so that a new round
looks elsewhere). The sub-agent is started by hand with:
  "Your complete task instructions are in the file /tmp/wtN/out-Cxx/PROMPT.txt — read it first and follow it exactly."
"""
import glob
import json
import os
import subprocess
import sys

ROOT = os.path.dirname(os.path.dirname(os.path.abspath(__file__)))
n = sys.argv[1]
want = sys.argv[2:]
base = "/tmp/wt%s" % n
os.makedirs(base, exist_ok=True)

HEAD = """You are helping to evaluate a test suite's blind spots for the Go library elastic/go-libaudit (Linux audit subsystem library). You have your own scratch git worktree of the repository at {wt} (work ONLY inside {wt} and {out}; never touch /repo or /verif and do not read anything under /verif).

Read the property in {out}/PROPERTY.txt. Your job: produce ONE realistic source change (a plausible bug a maintainer could introduce: a refactoring slip, an off-by-one, a wrong condition, a forgotten case, two sites that each look fine alone...) to the library code in {wt} that BREAKS this property, while the code still compiles and the repository's existing test suite still passes completely.

Important requirements:
- The breakage must need something specific to manifest (a particular multi-step sequence of operations, an unusual input, a specific boundary value, a particular interleaving, a fault at a particular point, etc.) — NOT something ordinary use would expose at once, and not something the existing tests catch.
- Do not change any *_test.go file or testdata of the repository as part of the breaking change. Only library source (Go files or the embedded normalizations.yaml).
- Keep the change small (a few lines).
- Environment: no network. Every shell command needs: export GOFLAGS=-mod=mod GOPROXY=off GOSUMDB=off GOTOOLCHAIN=local . Run the existing suite with: cd {wt} && go test -vet=off -count=1 ./...   (all packages must say ok). Some tests talk to the real kernel audit subsystem as root; that is expected. Other people run the same suite on this machine at the same time, so if a kernel-facing test in the root package fails once for a reason unrelated to your change, re-run it.
- Do NOT use `git stash` (the stash is shared between all worktrees of the repository, and other people work in sibling worktrees): to test without your change use `git diff > /tmp/your.diff; git apply -R /tmp/your.diff` and `git apply /tmp/your.diff` to restore it.
- If `go test` rewrites go.sum or go.mod, restore them (git checkout go.sum go.mod) — they must not be part of the patch.
- The repository has a build tag `verif` (files verif_yield_on.go / verif_yield_off.go and calls to verifYield in reassembler.go). Leave those alone; the code must also compile with `go build -tags verif ./...`.

Deliverables, all written into {out}/ :
1. patch.diff — output of `git -C {wt} diff` containing only the breaking change to library source.
2. demo_test.go — a small Go test (say in a first-line comment which directory of the repository it must be copied into and its package name) that FAILS with the change applied and PASSES without it, demonstrating the property violation through the public API where possible. Verify both directions yourself (with the patch: fails; after reverting the patch: passes). The demo test must not remain in the worktree diff.
3. meta.json — {{"property": "{pid}", "summary": "...what the change does...", "needs": "...what is needed for it to manifest...", "verified": "...the commands you ran and their outcomes (suite passes with change, demo fails with change, demo passes without)..."}}

When finished, leave the worktree with the patch APPLIED (uncommitted) and no other modifications. Reply with a short summary (what you changed and why the existing tests miss it).
"""

TAKEN = """

One more requirement: other people have already produced changes for this property. Their ideas are TAKEN; do NOT produce any of them or a close variant:
{items}
Find a DIFFERENT mechanism: a different function, a different clause of the property statement, or a different dimension of the quantifier than those touch. Subtle ideas are welcome: a change that is only wrong for one configuration value, one record type, one table entry, one operator, one length, one ordering of two calls, or one error path of a dependency; two cooperating sites; state that leaks from one call into the next; a result that is right when returned and wrong later; something that only shows after Close or after an earlier failure; a change outside the anchored files (a helper package, a generated table, the embedded YAML) that the anchored code relies on.
"""

props = [json.loads(l) for l in open(os.path.join(ROOT, "properties.jsonl"))]
for p in props:
    pid = p["id"]
    if want and pid not in want:
        continue
    wt, out = "%s/%s" % (base, pid), "%s/out-%s" % (base, pid)
    os.makedirs(out, exist_ok=True)
    if not os.path.isdir(wt):
        subprocess.check_call(["git", "-C", "/repo", "worktree", "add", "--detach", "-q", wt, "HEAD"])
    with open(out + "/PROPERTY.txt", "w") as f:
        f.write("Property %s: %s\n\nStatement: %s\n\nQuantified over: %s\n\nAnchored in files: %s\n" % (
            pid, p["title"], p["statement"], p["quantifier"]["text"], ", ".join(p["anchors"]["files"])))
    items = []
    for d in sorted(glob.glob(os.path.join(ROOT, "seeded", pid + "*"))):
        try:
            m = json.load(open(d + "/meta.json"))
        except Exception:
            continue
        items.append("  (%d) %s" % (len(items) + 1, " ".join(m.get("summary", "").split())[:420]))
    txt = HEAD.format(wt=wt, out=out, pid=pid)
    if items:
        txt += TAKEN.format(items="\n".join(items))
    with open(out + "/PROMPT.txt", "w") as f:
        f.write(txt)
    print(pid, "worktree", wt, "taken", len(items))
