// evmerge merges the evidence fragments that the test processes of one check
// wrote (internal/hx) and prints the merged coverage as JSON. The number of
// distinct non-trivial cases is the exact size of the union of the fingerprint
// sets of all processes.
package main

import (
	"encoding/binary"
	"encoding/json"
	"fmt"
	"os"
	"path/filepath"
	"sort"
)

type fragment struct {
	PropertyID  string            `json:"property_id"`
	Rule        string            `json:"rule"`
	Evaluations int64             `json:"evaluations"`
	NTTotal     int64             `json:"nontrivial_total"`
	FPFile      string            `json:"fp_file"`
	FPCount     int               `json:"fp_count"`
	Capped      bool              `json:"capped"`
	Classes     map[string]int64  `json:"classes"`
	Samples     []string          `json:"samples"`
	Known       map[string]int64  `json:"known"`
	KnownDetail map[string]string `json:"known_detail"`
	Excluded    int64             `json:"excluded"`
	Exhaustive  bool              `json:"exhaustive"`
	Extra       map[string]any    `json:"extra"`
	Violations  int64             `json:"violations"`
}

type merged struct {
	PropertyID  string            `json:"property_id"`
	Rule        string            `json:"rule"`
	Evaluations int64             `json:"evaluations"`
	Distinct    int64             `json:"distinct_nontrivial"`
	NTTotal     int64             `json:"nontrivial_total"`
	Capped      bool              `json:"fingerprints_capped"`
	Classes     map[string]int64  `json:"classes"`
	Samples     []string          `json:"samples"`
	Known       map[string]int64  `json:"known"`
	KnownDetail map[string]string `json:"known_detail"`
	Excluded    int64             `json:"excluded_known_finding_cases"`
	Exhaustive  bool              `json:"exhaustive"`
	Extra       map[string]any    `json:"extra"`
	Violations  int64             `json:"violations"`
	Fragments   int               `json:"fragments"`
}

func main() {
	if len(os.Args) != 3 {
		fmt.Fprintln(os.Stderr, "usage: evmerge <fragment-dir> <property-id>")
		os.Exit(2)
	}
	dir, id := os.Args[1], os.Args[2]
	files, _ := filepath.Glob(filepath.Join(dir, "*.frag.json"))
	sort.Strings(files)
	out := merged{PropertyID: id, Classes: map[string]int64{}, Known: map[string]int64{},
		KnownDetail: map[string]string{}, Extra: map[string]any{}}
	var fps []uint64
	exhaustiveAll, any := true, false
	for _, f := range files {
		b, err := os.ReadFile(f)
		if err != nil {
			continue
		}
		var fr fragment
		if json.Unmarshal(b, &fr) != nil || fr.PropertyID != id {
			continue
		}
		any = true
		out.Fragments++
		if out.Rule == "" {
			out.Rule = fr.Rule
		}
		out.Evaluations += fr.Evaluations
		out.NTTotal += fr.NTTotal
		out.Capped = out.Capped || fr.Capped
		out.Excluded += fr.Excluded
		out.Violations += fr.Violations
		if fr.Evaluations > 0 && !fr.Exhaustive {
			exhaustiveAll = false
		}
		for k, v := range fr.Classes {
			out.Classes[k] += v
		}
		for k, v := range fr.Known {
			out.Known[k] += v
		}
		for k, v := range fr.KnownDetail {
			if _, ok := out.KnownDetail[k]; !ok {
				out.KnownDetail[k] = v
			}
		}
		for k, v := range fr.Extra {
			if old, ok := out.Extra[k]; ok {
				// numbers are summed, everything else keeps the first value
				if a, ok1 := old.(float64); ok1 {
					if b, ok2 := v.(float64); ok2 {
						out.Extra[k] = a + b
						continue
					}
				}
				continue
			}
			out.Extra[k] = v
		}
		if len(out.Samples) < 12 {
			for _, s := range fr.Samples {
				if len(out.Samples) < 12 {
					out.Samples = append(out.Samples, s)
				}
			}
		}
		if raw, err := os.ReadFile(fr.FPFile); err == nil {
			for i := 0; i+8 <= len(raw); i += 8 {
				fps = append(fps, binary.LittleEndian.Uint64(raw[i:]))
			}
		}
	}
	sort.Slice(fps, func(a, b int) bool { return fps[a] < fps[b] })
	var distinct int64
	for i := range fps {
		if i == 0 || fps[i] != fps[i-1] {
			distinct++
		}
	}
	out.Distinct = distinct
	out.Exhaustive = any && exhaustiveAll
	b, _ := json.Marshal(out)
	os.Stdout.Write(b)
}
