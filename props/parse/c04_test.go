// Package parse holds the checks of the log parser properties C04 C05 C12.
package parse

import (
	"fmt"
	"strconv"
	"strings"
	"sync"
	"testing"
	"time"

	"github.com/elastic/go-libaudit/v2/auparse"
	"pgregory.net/rapid"

	"verif/internal/hx"
	"verif/internal/kenc"
)

func TestMain(m *testing.M) { hx.Main(m) }

// C04 — the parsed header equals the header that was written.

var hC04 = hx.New("C04", "rapid-generated log lines 'type=T msg=audit(S.mmm:N): body' (T over all 65536 codes written as name or UNKNOWN[n]; S in [0,2^34) and N over uint32 with boundary bias; hostile bodies containing msg=, ')', ':', '(', '.', and fields named like the well-known keys; optional surrounding whitespace) plus one-mutation malformed headers; exhaustive sweep over all record types. Oracle: independent expectation from the written header for ParseLogLine and Parse (RecordType, Timestamp UTC, Sequence, RawData, ToMapStr keys); malformed => error and nil. Non-trivial = valid case with hostile body / unknown type / N >= 2^31, or a malformed case; distinct by hash of the line")

type C04Case struct {
	Typ   uint16 `json:"typ"`
	Sec   int64  `json:"sec"`
	Ms    int    `json:"ms"`
	Seq   uint32 `json:"seq"`
	Body  []byte `json:"body"`
	Sep   string `json:"sep"`
	Lead  string `json:"lead"`
	Trail string `json:"trail"`
	Mut   string `json:"mut,omitempty"`
	Cut   int    `json:"cut,omitempty"`
	// Prior: a valid line with a related header is parsed right before the case's own line (a parsed header must
	// not depend on what was parsed before): same header, sequence number that is a decimal prefix / extension
	// of the case's, neighbouring timestamp
	Prior string `json:"prior,omitempty"`
}

func (c C04Case) prior() string {
	sec, ms, seq := c.Sec, c.Ms, c.Seq
	switch c.Prior {
	case "":
		return ""
	case "same":
	case "seq-prefix":
		seq /= 10
	case "seq-prefix2":
		seq /= 100
	case "seq-longer":
		if seq < 1<<32/10-1 {
			seq = seq*10 + 7
		} else {
			seq /= 1000
		}
	case "ms-next":
		ms = (ms + 1) % 1000
	case "sec-next":
		sec++
	case "sec-prefix":
		sec /= 10
	}
	return "type=SYSCALL msg=" + kenc.Header(sec, ms, seq) + " a=b"
}

func (c C04Case) header() string { return kenc.Header(c.Sec, c.Ms, c.Seq) }

func (c C04Case) text() string {
	h := c.header()
	h = h[:len(h)-1] // kenc.Header ends with ':'; the separator is a case parameter
	return h + c.Sep + string(c.Body)
}

func (c C04Case) Describe() string {
	line, _ := c.line()
	return fmt.Sprintf("mut=%q line=%q parsed right before: %q", c.Mut, line, c.prior())
}

var hostileTokens = []string{
	"a=b", "msg='op=x res=success'", "msg=audit(9.999:9):", ")", ":", "(", ".", "sequence=99",
	"record_type=FOO", "raw_msg=zzz", "timestamp=5", "@timestamp=7", "error=e", "tags=t", "key=\"k\"",
	"x=\"y z\"", "\xc3\xbc", "type=BAR", "msg=", "audit(1.002:3)", "exe=\"/bin/ls\"", "res=failed", "\xff\xfe",
}

func genC04(t *rapid.T) C04Case {
	var c C04Case
	c.Typ = rapid.OneOf(rapid.Uint16(), rapid.Uint16Range(1000, 2600), rapid.SampledFrom([]uint16{0, 1, 999, 1000, 1300, 1320, 1327, 2999, 65535})).Draw(t, "typ")
	c.Sec = rapid.OneOf(rapid.Int64Range(0, 1<<34-1), rapid.SampledFrom([]int64{0, 1, 999999999, 1<<31 - 1, 1 << 31, 1<<32 - 1, 1 << 32, 1<<34 - 1, 1700000000})).Draw(t, "sec")
	c.Ms = rapid.OneOf(rapid.IntRange(0, 999), rapid.SampledFrom([]int{0, 1, 9, 10, 99, 100, 999})).Draw(t, "ms")
	c.Seq = rapid.OneOf(rapid.Uint32(), rapid.SampledFrom([]uint32{0, 1, 1<<31 - 1, 1 << 31, 1<<32 - 1, 1 << 24})).Draw(t, "seq")
	toks := rapid.SliceOfN(rapid.SampledFrom(hostileTokens), 0, 6).Draw(t, "body")
	c.Body = []byte(strings.Join(toks, " "))
	if rapid.IntRange(0, 3).Draw(t, "rawbytes") == 0 {
		// "arbitrary bodies": any byte but the line terminator, the separators other log formats use among them
		// (0x1d in front of auditd's interpreted fields, NUL, escape, DEL, high bytes)
		junk := rapid.SliceOfN(rapid.OneOf(rapid.SampledFrom([]byte{0x1d, 0x1e, 0x1f, 0x00, 0x1b, 0x7f, 0x0b, 0x0c, 0x0d, 0x09, 0x01, 0xff, 0x80, 0xc2, 0x85, 0xa0}), rapid.Byte()), 1, 8).Draw(t, "junk")
		for i := range junk {
			if junk[i] == '\n' {
				junk[i] = '_'
			}
		}
		pos := rapid.IntRange(0, len(c.Body)).Draw(t, "junkpos")
		c.Body = append(append(append([]byte(nil), c.Body[:pos]...), junk...), c.Body[pos:]...)
	}
	c.Sep = rapid.SampledFrom([]string{": ", ": ", ":", " ", ""}).Draw(t, "sep")
	if len(c.Body) == 0 {
		c.Sep = rapid.SampledFrom([]string{":", ""}).Draw(t, "sep2")
	}
	c.Lead = rapid.SampledFrom([]string{"", "", " ", "  ", "\t"}).Draw(t, "lead")
	c.Trail = rapid.SampledFrom([]string{"", "", " ", "\n", "\r\n", " \t"}).Draw(t, "trail")
	if rapid.IntRange(0, 3).Draw(t, "mutate") == 0 {
		c.Mut = rapid.SampledFrom([]string{"nomsg", "noparen", "nodot", "nocolon", "noclose", "alpha-sec", "empty-sec",
			"alpha-ms", "empty-ms", "alpha-seq", "bigseq", "emptyseq", "negseq", "badtype", "trunc",
			"type-empty", "type-nospace", "type-blank", "type-gone", "msg-at-5",
			"unk-noclose", "unk-noopen", "unk-empty", "unk-alpha", "unk-neg", "unk-big", "unk-space", "unk-plus", "unk-hex", "unk-nested"}).Draw(t, "mk")
		c.Cut = rapid.IntRange(0, 1000).Draw(t, "cut")
	}
	if rapid.IntRange(0, 2).Draw(t, "hasprior") == 0 {
		c.Prior = rapid.SampledFrom([]string{"seq-prefix", "same", "seq-longer", "seq-prefix2", "ms-next", "sec-next", "sec-prefix"}).Draw(t, "prior")
	}
	return c
}

// line returns the log line of the case and, for valid cases, the text after
// "msg=". Mutated lines are malformed under any reading of the grammar: their
// bodies contain none of the four header punctuation characters.
func (c C04Case) line() (line string, afterMsg string) {
	typ := auparse.AuditMessageType(c.Typ).String()
	pre := "type=" + typ + " msg="
	if c.Mut == "" {
		after := c.Lead + c.text() + c.Trail
		return pre + after, after
	}
	const tail = " a=b"
	s, ms, n := strconv.FormatInt(c.Sec, 10), fmt.Sprintf("%03d", c.Ms), strconv.FormatUint(uint64(c.Seq), 10)
	var after string
	switch c.Mut {
	case "nomsg":
		return "type=" + typ + " audit(" + s + "." + ms + ":" + n + "):" + tail, ""
	case "noparen":
		after = "audit " + s + "." + ms + ":" + n + "):" + tail
	case "nodot":
		after = "audit(" + s + ms + ":" + n + "):" + tail
	case "nocolon":
		after = "audit(" + s + "." + ms + " " + n + ")" + tail
	case "noclose":
		after = "audit(" + s + "." + ms + ":" + n + tail
	case "alpha-sec":
		after = "audit(x" + s + "." + ms + ":" + n + "):" + tail
	case "empty-sec":
		after = "audit(." + ms + ":" + n + "):" + tail
	case "alpha-ms":
		after = "audit(" + s + "." + ms[:2] + "x:" + n + "):" + tail
	case "empty-ms":
		after = "audit(" + s + ".:" + n + "):" + tail
	case "alpha-seq":
		after = "audit(" + s + "." + ms + ":" + n + "x):" + tail
	case "bigseq":
		after = "audit(" + s + "." + ms + ":" + strconv.FormatUint(uint64(c.Seq)+1<<32, 10) + "):" + tail
	case "emptyseq":
		after = "audit(" + s + "." + ms + ":):" + tail
	case "negseq":
		after = "audit(" + s + "." + ms + ":-" + n + "):" + tail
	case "type-empty": // the type name and its blank are gone: msg= right after type=
		return "type=msg=audit(" + s + "." + ms + ":" + n + "):" + tail, ""
	case "type-nospace":
		return "type=" + typ + "msg=audit(" + s + "." + ms + ":" + n + "):" + tail, ""
	case "type-blank":
		return "type= msg=audit(" + s + "." + ms + ":" + n + "):" + tail, ""
	case "type-gone":
		return "msg=audit(" + s + "." + ms + ":" + n + "):" + tail, ""
	case "msg-at-5":
		return "12345msg=audit(" + s + "." + ms + ":" + n + "):" + tail, ""
	case "unk-noclose", "unk-noopen", "unk-empty", "unk-alpha", "unk-neg", "unk-big", "unk-space", "unk-plus", "unk-hex", "unk-nested":
		// a type name that is neither a name of the table nor UNKNOWN[n] with a number n that is a record type:
		// the bracket form with a bracket missing, with nothing, a letter, a sign, a blank or a prefix in it, or
		// with a number no record type has
		num := strconv.Itoa(int(c.Typ))
		name := map[string]string{"unk-noclose": "UNKNOWN[" + num, "unk-noopen": "UNKNOWN" + num + "]", "unk-empty": "UNKNOWN[]", "unk-alpha": "UNKNOWN[x" + num + "]",
			"unk-neg": "UNKNOWN[-" + num + "]", "unk-big": "UNKNOWN[" + strconv.Itoa(65536+int(c.Typ)) + "]", "unk-space": "UNKNOWN[" + num + " ]", "unk-plus": "UNKNOWN[+" + num + "]",
			"unk-hex": "UNKNOWN[0x" + strconv.FormatInt(int64(c.Typ), 16) + "]", "unk-nested": "UNKNOWN[[" + num + "]"}[c.Mut]
		return "type=" + name + " msg=audit(" + s + "." + ms + ":" + n + "):" + tail, ""
	case "badtype":
		return "type=NO_SUCH_TYPE msg=audit(" + s + "." + ms + ":" + n + "):" + tail, ""
	case "trunc":
		full := pre + "audit(" + s + "." + ms + ":" + n + ")"
		return full[:c.Cut%(len(full)-0)], ""
	}
	return pre + after, after
}

func propC04(c C04Case) error {
	line, after := c.line()
	typ := auparse.AuditMessageType(c.Typ)
	if p := c.prior(); p != "" {
		if _, err := auparse.ParseLogLine(p); err != nil {
			return fmt.Errorf("ParseLogLine(%q): %v", p, err)
		}
		hC04.Class("with-related-line-parsed-before")
	}
	m, err := auparse.ParseLogLine(line)
	if (m == nil) == (err == nil) {
		return fmt.Errorf("ParseLogLine(%q) returned (msg nil=%v, err=%v): exactly one must be nil", line, m == nil, err)
	}
	if c.Mut != "" {
		if err == nil {
			return fmt.Errorf("malformed header (%s) accepted by ParseLogLine: %q -> %+v", c.Mut, line, *m)
		}
		if after != "" {
			if p := c.prior(); p != "" {
				_, _ = auparse.ParseLogLine(p)
			}
			m2, err2 := auparse.Parse(typ, after)
			if err2 == nil || m2 != nil {
				return fmt.Errorf("malformed header (%s) accepted by Parse: %q", c.Mut, after)
			}
		}
		hC04.Class("malformed-" + c.Mut)
		hC04.NonTrivial(hx.FP(line), c.Describe)
		return nil
	}
	if err != nil {
		return fmt.Errorf("ParseLogLine(%q): %v", line, err)
	}
	m2, err := auparse.Parse(typ, after)
	if err != nil || m2 == nil {
		return fmt.Errorf("Parse(%d, %q): msg nil=%v err=%v", c.Typ, after, m2 == nil, err)
	}
	wantRaw := strings.TrimSpace(c.text())
	wantTS := time.Unix(c.Sec, int64(c.Ms)*1_000_000).UTC()
	if err := parseOthers(1); err != nil { // a parsed header must not depend on what is parsed afterwards, nor the other way round
		return err
	}
	for i, x := range []*auparse.AuditMessage{m, m2} {
		who := []string{"ParseLogLine", "Parse"}[i]
		if x.RecordType != typ {
			return fmt.Errorf("%s(%q): RecordType %d, written %d", who, line, x.RecordType, c.Typ)
		}
		if x.Sequence != c.Seq {
			return fmt.Errorf("%s(%q): Sequence %d, written %d", who, line, x.Sequence, c.Seq)
		}
		if x.Timestamp.Unix() != c.Sec || x.Timestamp.Nanosecond() != c.Ms*1_000_000 {
			return fmt.Errorf("%s(%q): Timestamp %d.%09d, written %d.%03d", who, line, x.Timestamp.Unix(), x.Timestamp.Nanosecond(), c.Sec, c.Ms)
		}
		if x.Timestamp.Location() != time.UTC {
			return fmt.Errorf("%s(%q): Timestamp location %v, want UTC", who, line, x.Timestamp.Location())
		}
		if x.RawData != wantRaw {
			return fmt.Errorf("%s(%q): RawData %q, want the trimmed text after msg= %q", who, line, x.RawData, wantRaw)
		}
		// (twice: the map the first call returned is the caller's — it is emptied and scribbled on, as a caller that
		// reshapes it for its own output does — and the second call reports the header all the same)
		first := x.ToMapStr()
		for k := range first {
			delete(first, k)
		}
		first["sequence"], first["record_type"], first["extra"] = "0", "edited", "x"
		ms := x.ToMapStr()
		if _, has := ms["extra"]; has {
			return fmt.Errorf("%s(%q): what the caller wrote into the map of an earlier ToMapStr call shows up in the next one: %v", who, line, ms)
		}
		if ms["record_type"] != typ.String() {
			return fmt.Errorf("%s(%q): ToMapStr record_type=%v want %q", who, line, ms["record_type"], typ.String())
		}
		if ms["sequence"] != strconv.FormatUint(uint64(c.Seq), 10) {
			return fmt.Errorf("%s(%q): ToMapStr sequence=%v want %d", who, line, ms["sequence"], c.Seq)
		}
		if ms["raw_msg"] != wantRaw {
			return fmt.Errorf("%s(%q): ToMapStr raw_msg=%q want %q", who, line, ms["raw_msg"], wantRaw)
		}
		if ms["@timestamp"] != wantTS.String() {
			return fmt.Errorf("%s(%q): ToMapStr @timestamp=%v want %q", who, line, ms["@timestamp"], wantTS.String())
		}
	}
	unknown := strings.HasPrefix(typ.String(), "UNKNOWN[")
	hostile := strings.ContainsAny(string(c.Body), "():.") || strings.Contains(string(c.Body), "msg=") ||
		strings.Contains(string(c.Body), "sequence=") || strings.Contains(string(c.Body), "record_type=") || strings.Contains(string(c.Body), "raw_msg=")
	if unknown {
		hC04.Class("valid-unknown-type")
	}
	if hostile {
		hC04.Class("valid-hostile-body")
	}
	if c.Seq >= 1<<31 {
		hC04.Class("valid-seq-ge-2^31")
	}
	if unknown || hostile || c.Seq >= 1<<31 {
		hC04.NonTrivial(hx.FP(line), c.Describe)
	} else {
		hC04.Class("valid-plain")
	}
	return nil
}

func TestC04Regress(t *testing.T) { hx.Regress(t, hC04, "TestC04", propC04) }

func TestC04(t *testing.T) { hx.Check(t, hC04, "TestC04", genC04, propC04) }

// TestC04Types sweeps all 65536 record types through a few fixed headers.
func TestC04Types(t *testing.T) {
	heads := []C04Case{
		{Sec: 1488862769, Ms: 30, Seq: 19469538, Body: []byte("arch=c000003e syscall=2"), Sep: ": "},
		{Sec: 1<<34 - 1, Ms: 999, Seq: 1<<32 - 1, Body: []byte("msg='op=x :) (a.b) msg=audit(1.000:2): res=success'"), Sep: ": "},
		{Sec: 0, Ms: 0, Seq: 0, Body: nil, Sep: ""},
	}
	n := 0
	for typ := 0; typ < 65536; typ++ {
		for _, c := range heads {
			c.Typ = uint16(typ)
			hC04.Eval()
			n++
			if err := hx.Guard(propC04, c); err != nil {
				hC04.Fail(t, "TestC04", c, "%v", err)
			}
		}
	}
	hC04.Extra("type_sweep_cases", n)
}

// TestC04Concurrent: the same property from eight goroutines at once, each over its own cases (unrelated
// lines, unknown record types among them). Nothing in the property allows the outcome for one line to
// depend on what other goroutines parse; a process that dies here is reported through the crash file.
func TestC04Concurrent(t *testing.T) {
	rounds := hx.EnvInt("VERIF_N", 300)
	gen := rapid.Custom(func(rt *rapid.T) C04Case { return genC04(rt) })
	for r := 0; r < rounds; r++ {
		const G = 8
		cases := make([][]C04Case, G)
		for g := range cases {
			for i := 0; i < 24; i++ {
				c := gen.Example(int(hx.Seed())*1000003 + (r*G+g)*24 + i)
				// unknown types that no earlier round has touched: first sightings happen in parallel
				if i%3 == 0 {
					c.Typ = uint16(3000 + (r*G*8+g*8+i/3)%60000)
				}
				cases[g] = append(cases[g], c)
			}
		}
		hC04.BeginLimit("TestC04", cases[0][0], 120*time.Second)
		errs := make([]error, G)
		bad := make([]C04Case, G)
		var wg sync.WaitGroup
		start := make(chan struct{})
		for g := 0; g < G; g++ {
			wg.Add(1)
			go func(g int) {
				defer wg.Done()
				<-start
				for _, c := range cases[g] {
					if err := hx.Guard(propC04, c); err != nil && errs[g] == nil {
						errs[g], bad[g] = err, c
					}
				}
			}(g)
		}
		close(start)
		wg.Wait()
		hC04.End()
		for g := range errs {
			hC04.Eval()
			if errs[g] != nil {
				hC04.Fail(t, "TestC04", bad[g], "while seven other goroutines were parsing other lines: %v", errs[g])
			}
		}
		hC04.Class("concurrent-round")
	}
}
