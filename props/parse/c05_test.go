package parse

import (
	"fmt"
	"os"
	"path/filepath"
	"reflect"
	"strings"
	"testing"

	"github.com/elastic/go-libaudit/v2/auparse"
	"pgregory.net/rapid"

	"verif/internal/hx"
)

// C05 — the audit log parser is total: no panic, no hang, errors through the
// error result, repeated calls give the same result.

var hC05 = hx.New("C05", "inputs: (a) rapid-generated arbitrary byte strings x record types, (b) kernel-style records (the C12 generator) damaged by 1-4 grammar-aware mutations (delete / duplicate / flip bytes, break quotes, odd-length hex, huge argc, truncation, hostile tokens), parsed through Parse and ParseLogLine under the original or another record type; thorough tier adds coverage-guided native fuzzing of the same oracle. Oracle: no panic (recovered and reported), watchdog for hangs, exactly one of (msg, err) nil, Data/Tags/ToMapStr called twice give deeply equal results, a Data error shows up as ToMapStr()[\"error\"]. Non-trivial = header accepted and the record type has its own enrichment path; distinct by hash of (type, input)")

var enrichTypes = []uint16{1300, 1326, 1306, 1309, 1400, 1006, 1302, 1327, 1123, 1319, 1124, 1112, 1104, 1105, 1106, 1307}

func isEnrichType(t uint16) bool {
	for _, e := range enrichTypes {
		if e == t {
			return true
		}
	}
	return false
}

type C05Case struct {
	Typ    uint16 `json:"typ"`
	Input  []byte `json:"input"`
	AsLine bool   `json:"as_line"` // ParseLogLine(Input) instead of Parse(Typ, Input)
}

func (c C05Case) Describe() string {
	return fmt.Sprintf("typ=%d as_line=%v input=%q", c.Typ, c.AsLine, c.Input)
}

var hostileInserts = []string{
	"msg='", "'", `"`, `\"`, `\'`, "=", " ", "argc=4294967295", "argc=99999999", "argc=-1", "a0=", "saddr=0", "saddr=020", "saddr=0A00",
	"saddr=0100", "saddr=02000000", "key=", "key=6B01", "subj=", "subj=a:b:c:d:e:f:g", "obj=::::", "arch=zz", "syscall=x", "exit=-0",
	"exit=-9223372036854775808", "sig=-1", "sig=99999999999999999999", "avc:  denied  { } for ", "avc:  denied  { read write } for  pid=1",
	"old ", "new ", " (hostname=", ")'", "proctitle=", "data=0", "cmd=0", "exe=0", "success=", "res=", "ses=-1", "auid=4294967295",
	"audit(1.000:2):", "\x00", "\xff", "a1=41", "a0=\"x\"", "msg=audit(", "type=",
}

func mutate(t *rapid.T, in []byte) []byte {
	b := append([]byte(nil), in...)
	for i, n := 0, rapid.IntRange(1, 4).Draw(t, "nmut"); i < n; i++ {
		pos := 0
		if len(b) > 0 {
			pos = rapid.IntRange(0, len(b)-1).Draw(t, "pos")
		}
		switch rapid.IntRange(0, 6).Draw(t, "mut") {
		case 0: // delete a byte
			if len(b) > 0 {
				b = append(b[:pos], b[pos+1:]...)
			}
		case 1: // duplicate a range
			end := pos + rapid.IntRange(1, 12).Draw(t, "len")
			if end > len(b) {
				end = len(b)
			}
			b = append(b[:end], append(append([]byte(nil), b[pos:end]...), b[end:]...)...)
		case 2: // flip a byte
			if len(b) > 0 {
				b[pos] = rapid.Byte().Draw(t, "byte")
			}
		case 3: // truncate
			b = b[:pos]
		case 4, 5: // insert a hostile token
			tok := rapid.SampledFrom(hostileInserts).Draw(t, "tok")
			b = append(b[:pos], append([]byte(" "+tok+" "), b[pos:]...)...)
		case 6: // delete a range
			end := pos + rapid.IntRange(1, 20).Draw(t, "len")
			if end > len(b) {
				end = len(b)
			}
			b = append(b[:pos], b[end:]...)
		}
	}
	return b
}

// headerPieces are the building blocks of a log line's header; lines glued together from them reach every
// boundary of the header parser (a missing space, an empty type name, a missing colon, two "msg=" ...).
var headerPieces = []string{"type=", "msg=", "audit(", "1.000", ":", "2", ")", " ", "SYSCALL", "UNKNOWN[", "1300", "]", ".", "=", "", " msg=", "][", "[",
	"type", "msg", "audit", "(", "1", "000", "-", "99999999999999999999", "\t", "'", "node=h ", "): ", "a=b", "x"}

func genC05(t *rapid.T) C05Case {
	var c C05Case
	switch rapid.IntRange(0, 11).Draw(t, "src") {
	case 10, 11: // header soup
		c.Typ = rapid.SampledFrom(enrichTypes).Draw(t, "typ")
		c.Input = []byte(strings.Join(rapid.SliceOfN(rapid.SampledFrom(headerPieces), 0, 14).Draw(t, "pieces"), ""))
		c.AsLine = rapid.IntRange(0, 3).Draw(t, "line") != 0
	case 0: // arbitrary bytes
		c.Typ = rapid.OneOf(rapid.Uint16(), rapid.SampledFrom(enrichTypes)).Draw(t, "typ")
		c.Input = rapid.SliceOfN(rapid.Byte(), 0, 200).Draw(t, "bytes")
		c.AsLine = rapid.Bool().Draw(t, "line")
	case 1: // valid header + token soup
		c.Typ = rapid.SampledFrom(enrichTypes).Draw(t, "typ")
		toks := rapid.SliceOfN(rapid.SampledFrom(hostileInserts), 0, 12).Draw(t, "toks")
		c.Input = []byte("audit(1.000:2): " + strings.Join(toks, rapid.SampledFrom([]string{" ", "", "  "}).Draw(t, "glue")))
	default: // damaged kernel-style record
		k := genC12(t)
		c.Typ = k.Rec.Type
		raw := []byte(k.Rec.Raw())
		if rapid.IntRange(0, 4).Draw(t, "intact") != 0 {
			// keep the header intact most of the time so that the enrichment is reached
			hdrEnd := strings.Index(string(raw), "): ") + 3
			raw = append(append([]byte(nil), raw[:hdrEnd]...), mutate(t, raw[hdrEnd:])...)
		} else {
			raw = mutate(t, raw)
		}
		if rapid.IntRange(0, 5).Draw(t, "othertype") == 0 {
			c.Typ = rapid.SampledFrom(enrichTypes).Draw(t, "typ2")
		}
		c.Input = raw
		if rapid.IntRange(0, 5).Draw(t, "line") == 0 {
			c.AsLine = true
			c.Input = []byte("type=" + auparse.AuditMessageType(c.Typ).String() + " msg=" + string(raw))
			if rapid.IntRange(0, 2).Draw(t, "damageprefix") == 0 {
				// damage the "type=NAME msg=audit(" part too
				n := min(len(c.Input), 40)
				c.Input = append(mutate(t, c.Input[:n]), c.Input[n:]...)
			}
		}
	}
	return c
}

func sameErr(a, b error) bool {
	if a == nil || b == nil {
		return a == nil && b == nil
	}
	return a.Error() == b.Error()
}

// c05Others decodes a few records of other events: hex-encoded arguments, a unix socket path, a process title.
var c05OtherRecs = []struct {
	typ auparse.AuditMessageType
	raw string
}{
	{auparse.AUDIT_EXECVE, `audit(1700000002.789:4713): argc=3 a0="o0" a1=6F74686572206F74686572206F74686572206F74686572206F74686572206F74686572 a2=6F32206F32`},
	{auparse.AUDIT_SOCKADDR, `audit(1700000003.000:4714): saddr=01002F72756E2F6F746865722F6F746865722F6F746865722E736F636B657400`},
	{auparse.AUDIT_PROCTITLE, `audit(1700000004.000:4715): proctitle=6F74686572007469746C65006F74686572007469746C65`},
}

func c05OthersDigest() string {
	var b strings.Builder
	for _, o := range c05OtherRecs {
		if m, err := auparse.Parse(o.typ, o.raw); err == nil {
			d, derr := m.Data()
			fmt.Fprintf(&b, "%q %v\n", d, derr)
		} else {
			fmt.Fprintf(&b, "error %v\n", err)
		}
	}
	return b.String()
}

var c05OthersRef = c05OthersDigest()

// c05Others decodes the fixed records; what they decode to is compared with process start.
func c05Others() error {
	if d := c05OthersDigest(); d != c05OthersRef {
		return fmt.Errorf("fixed records decoded after this input differ from how they decoded when the process started:\n  now   %s\n  start %s", d, c05OthersRef)
	}
	return nil
}

// totalityOracle is shared by the rapid property and the native fuzz targets.
func totalityOracle(c C05Case) (accepted bool, typ uint16, err error) {
	var m *auparse.AuditMessage
	var perr error
	if c.AsLine {
		m, perr = auparse.ParseLogLine(string(c.Input))
	} else {
		m, perr = auparse.Parse(auparse.AuditMessageType(c.Typ), string(c.Input))
	}
	if (m == nil) == (perr == nil) {
		return false, 0, fmt.Errorf("parse returned (msg nil=%v, err=%v): exactly one must be nil", m == nil, perr)
	}
	if m == nil {
		return false, 0, c05Others() // a refused input leaves nothing behind
	}
	d1, e1 := m.Data()
	var d1copy map[string]string
	if d1 != nil {
		d1copy = make(map[string]string, len(d1))
		for k, v := range d1 {
			d1copy[k] = v
		}
	}
	t1, te1 := m.Tags()
	t1copy := append([]string(nil), t1...)
	ms1 := m.ToMapStr()
	// what the first calls returned, byte for byte (a fresh string: nothing in it shares memory with the results),
	// then other records are decoded — their values go through the same decoders — and the calls are repeated
	snap1 := fmt.Sprintf("%q | %q | %q", d1, t1, fmt.Sprint(ms1))
	if err := c05Others(); err != nil {
		return true, uint16(m.RecordType), err
	}
	if snap := fmt.Sprintf("%q | %q | %q", d1, t1, fmt.Sprint(ms1)); snap != snap1 {
		return true, uint16(m.RecordType), fmt.Errorf("the results the first calls returned changed while other records were decoded:\n  were %s\n  are  %s", snap1, snap)
	}
	d2, e2 := m.Data()
	t2, te2 := m.Tags()
	ms2 := m.ToMapStr()
	if snap := fmt.Sprintf("%q | %q | %q", d2, t2, fmt.Sprint(ms2)); snap != snap1 {
		return true, uint16(m.RecordType), fmt.Errorf("Data/Tags/ToMapStr differ between calls (other records were decoded in between):\n  first  %s\n  second %s", snap1, snap)
	}
	if !sameErr(e1, e2) || !sameErr(te1, te2) || !sameErr(e1, te1) {
		return true, uint16(m.RecordType), fmt.Errorf("errors differ between calls: Data %v / %v, Tags %v / %v", e1, e2, te1, te2)
	}
	if !reflect.DeepEqual(d1copy, d2) && !(len(d1copy) == 0 && len(d2) == 0) {
		return true, uint16(m.RecordType), fmt.Errorf("Data() differs between calls: %v vs %v", d1copy, d2)
	}
	if !reflect.DeepEqual(t1copy, append([]string(nil), t2...)) {
		return true, uint16(m.RecordType), fmt.Errorf("Tags() differs between calls: %q vs %q", t1copy, t2)
	}
	if !reflect.DeepEqual(ms1, ms2) {
		return true, uint16(m.RecordType), fmt.Errorf("ToMapStr() differs between calls: %v vs %v", ms1, ms2)
	}
	if e1 != nil {
		if ms1["error"] != e1.Error() {
			return true, uint16(m.RecordType), fmt.Errorf("Data() failed with %q but ToMapStr()[error] = %v", e1.Error(), ms1["error"])
		}
	} else if _, has := ms1["error"]; has {
		if _, fromData := d1copy["error"]; !fromData {
			return true, uint16(m.RecordType), fmt.Errorf("Data() succeeded but ToMapStr() has error=%v", ms1["error"])
		}
	}
	// the maps and slices handed out are the caller's: emptied and scribbled on, they change nothing about what
	// the next call returns (Data's map is documented to be the message's own and is left alone)
	snapMs, snapTags := fmt.Sprint(ms2), fmt.Sprintf("%q", t2)
	for k := range ms1 {
		delete(ms1, k)
	}
	ms1["sequence"], ms1["extra"] = "edited", "x"
	for k := range ms2 {
		if k != "data" && k != "tags" {
			ms2[k] = "edited"
		}
	}
	if got := fmt.Sprint(m.ToMapStr()); got != snapMs {
		return true, uint16(m.RecordType), fmt.Errorf("ToMapStr() after the caller edited the maps of earlier calls: %s, before: %s", got, snapMs)
	}
	if t3, _ := m.Tags(); fmt.Sprintf("%q", t3) != snapTags {
		return true, uint16(m.RecordType), fmt.Errorf("Tags() differs between calls: %q vs %s", t3, snapTags)
	}
	return true, uint16(m.RecordType), nil
}

func propC05(c C05Case) error {
	hC05.Begin("TestC05", c)
	accepted, typ, err := totalityOracle(c)
	hC05.End() // not deferred: after a panic or a fatal error the crash file must keep the case
	if err != nil {
		return fmt.Errorf("%s: %v", c.Describe(), err)
	}
	if accepted {
		hC05.Class("header-accepted")
		if isEnrichType(typ) {
			hC05.Class(fmt.Sprintf("enrich-type-%d", typ))
			hC05.NonTrivial(hx.FP(typ, c.Input, c.AsLine), c.Describe)
		}
	} else {
		hC05.Class("header-rejected")
	}
	return nil
}

func TestC05Regress(t *testing.T) { hx.Regress(t, hC05, "TestC05", propC05) }

func TestC05(t *testing.T) { hx.Check(t, hC05, "TestC05", genC05, propC05) }

// TestC05HeaderSoup enumerates every concatenation of up to four (thorough: five) of the first eighteen header pieces (about
// 800 000 lines) through ParseLogLine, and the ones without "type=" through Parse as well.
func TestC05HeaderSoup(t *testing.T) {
	pieces := headerPieces[:18]
	depth := 5
	if !hx.Thorough() {
		depth = 4
	}
	var rec func(prefix string, d int)
	rec = func(prefix string, d int) {
		for _, asLine := range []bool{true, false} {
			c := C05Case{Typ: 1300, Input: []byte(prefix), AsLine: asLine}
			hC05.Eval()
			if err := hx.Guard(propC05, c); err != nil {
				hC05.Fail(t, "TestC05", c, "%v", err)
			}
		}
		if d == depth {
			return
		}
		for _, p := range pieces {
			if p != "" {
				rec(prefix+p, d+1)
			}
		}
	}
	rec("", 0)
	hC05.Class("header-soup-sweep")
}

// bodyGrammars: what the bodies with a grammar of their own are made of — the words the kernel and user space
// really write (an access vector that is empty is written "null", not "{ }"), with and without their neighbours.
var bodyGrammars = []struct {
	types  []uint16
	pieces []string
}{
	{[]uint16{1400, 1107}, []string{"avc:", " ", "  ", "denied", "granted", "{", "}", "read", "null", "for", "pid=1", "apparmor=\"DENIED\"", "scontext=a:b:c:s0", "tclass=file", "permissive=0", "msg='", "'"}},
	{[]uint16{1006}, []string{"login", " ", "pid=1", "uid=0", "old", "new", "auid=", "ses=", "4294967295", "5", "=", "old auid=1", "new ses=2", "res=1", "old-auid=", "tty=(none)"}},
	{[]uint16{1309}, []string{"argc=", "2", "0", "-1", " ", "a0=", "a1=", "a0_len=", "a0[0]=", "\"x\"", "41", "4", "=", "a2=", "a10="}},
	{[]uint16{1100, 1105, 1112, 1123}, []string{"pid=1", " ", "msg='", "'", "op=x", "acct=", "\"u\"", "(hostname=?,", "addr=?,", "terminal=t", "res=", "success", "failed", ")'", "cmd=", "6C73", "cwd=\"/\"", ":"}},
	{[]uint16{1306}, []string{"saddr=", "01", "02", "0A", "00", "10", " ", "2F", "0000", "00000000", "7F000001", "x", "="}},
}

var bodySentences = []struct {
	types []uint16
	slots [][]string
}{
	// an SELinux AVC record (avc_audit_pre_callback / avc_dump_av): "avc:  denied  { read } for  pid=..."
	{[]uint16{1400, 1107}, [][]string{{"", "msg='"}, {"avc:", "avc"}, {"  ", " "}, {"denied", "granted", ""}, {"  ", " "},
		{"{ read }", "{ read write }", "{ }", "{}", "null", "{", "}", "{ read", "read }", "0x10", ""}, {" ", "  "}, {"for", ""}, {"  ", " ", ""},
		{"pid=1 comm=\"c\" scontext=a:b:c:s0 tcontext=d:e:f:s0 tclass=file permissive=0", "pid=1", ""}, {"", "'"}}},
	// an AppArmor one
	{[]uint16{1400}, [][]string{{"apparmor=", "apparmor", ""}, {"\"DENIED\"", "\"ALLOWED\"", "DENIED", "\"", ""}, {" ", ""}, {"operation=\"open\"", "operation=", ""}, {" ", ""},
		{"profile=\"p\" name=\"/x\" pid=1 comm=\"c\" requested_mask=\"r\" denied_mask=\"r\"", "profile=", ""}}},
	// LOGIN, old and new form
	{[]uint16{1006}, [][]string{{"login ", ""}, {"pid=1 uid=0 ", ""}, {"old auid=", "old-auid=", "old ", "auid=", ""}, {"4294967295", "1000", ""}, {" "},
		{"new auid=", "auid=", ""}, {"1000", ""}, {" "}, {"old ses=", "old-ses=", "ses=", ""}, {"4294967295", "5", ""}, {" "}, {"new ses=", ""}, {"6", ""}, {" res=1", ""}}},
}

// TestC05BodySoup: every concatenation of up to 4 (thorough: 5) of those words, as the body of a record of the
// types that read them, through Parse and every accessor.
func TestC05BodySoup(t *testing.T) {
	depth := 3
	if hx.Thorough() {
		depth = 4
	}
	// sentences: one alternative per slot, every combination (the shapes a record really has, each part in every
	// spelling incl. the missing one)
	for _, s := range bodySentences {
		var rec func(body string, slot int)
		rec = func(body string, slot int) {
			if slot == len(s.slots) {
				for _, typ := range s.types {
					c := C05Case{Typ: typ, Input: []byte("audit(1.000:1): " + body)}
					hC05.Eval()
					if err := hx.Guard(propC05, c); err != nil {
						hC05.Fail(t, "TestC05", c, "%v", err)
					}
				}
				return
			}
			for _, alt := range s.slots[slot] {
				rec(body+alt, slot+1)
			}
		}
		rec("", 0)
	}
	for gi, g := range bodyGrammars {
		depth := depth
		if gi >= 2 && depth > 3 {
			depth = 3 // (the deeper sweep for the two grammars with the most structure: AVC and LOGIN)
		}
		var rec func(body string, d int)
		rec = func(body string, d int) {
			for _, typ := range g.types {
				c := C05Case{Typ: typ, Input: []byte("audit(1.000:1): " + body)}
				hC05.Eval()
				if err := hx.Guard(propC05, c); err != nil {
					hC05.Fail(t, "TestC05", c, "%v", err)
				}
			}
			if d == depth {
				return
			}
			for _, p := range g.pieces {
				rec(body+p, d+1)
				if p != " " && p != "  " && body != "" {
					rec(body+" "+p, d+1)
				}
			}
		}
		rec("", 0)
	}
	hC05.Class("body-soup-sweep")
}

// numberKeys: the fields the parser reads as numbers (strconv accepts a sign, and with base 0 a prefix and
// underscores — a number read that way and then used as an index, a length or a shift can be negative or huge),
// each in the record types that interpret it.
var numberKeys = []struct {
	types []uint16
	keys  []string
}{
	{[]uint16{1306}, []string{"saddr"}},
	{[]uint16{1300, 1326}, []string{"arch", "syscall", "exit", "a0", "a1", "sig", "auid", "ses", "success", "items", "per"}},
	{[]uint16{1309}, []string{"argc", "a0_len", "a0[0]", "a1"}},
	{[]uint16{1302}, []string{"mode", "item", "ouid", "dev", "rdev", "inode", "cap_fp", "nametype"}},
	{[]uint16{1318, 1327, 1319}, []string{"opid", "sig", "oauid", "oses", "proctitle", "data"}},
	{[]uint16{1100, 1006, 1107}, []string{"res", "result", "auid", "ses", "old-auid", "id", "uid", "msg"}},
}

var numberPieces = []string{"-", "+", "0", "1", "F", "x", "_", "FF", "02", "4294967295", "f", "0x", "0A", "10", "00", "7FFFFFFF", "80000000", "FFFFFFFF", "9223372036854775808"}

// TestC05NumberSoup: every concatenation of up to 3 of the first ten of those pieces (thorough: of all of them, and up
// to 4 of the first ten) as the value of every field that is read as a number, alone and next to an ordinary neighbour, through Parse and every accessor.
func TestC05NumberSoup(t *testing.T) {
	// quick: depth 3 over the ten shortest pieces; thorough: depth 3 over all nineteen, then depth 4 over the ten
	runs := []struct {
		pieces []string
		depth  int
	}{{numberPieces[:10], 3}}
	if hx.Thorough() {
		runs[0].pieces = numberPieces
		runs = append(runs, struct {
			pieces []string
			depth  int
		}{numberPieces[:10], 4})
	}
	for _, run := range runs {
		numberSoup(t, run.pieces, run.depth)
	}
	hC05.Class("number-soup-sweep")
}

func numberSoup(t *testing.T, pieces []string, depth int) {
	for _, g := range numberKeys {
		for _, key := range g.keys {
			var rec func(val string, d int)
			rec = func(val string, d int) {
				for _, typ := range g.types {
					for _, body := range []string{key + "=" + val, "pid=1 " + key + "=" + val + " comm=\"c\"", "msg='" + key + "=" + val + " res=success'"} {
						c := C05Case{Typ: typ, Input: []byte("audit(1.000:1): " + body)}
						hC05.Eval()
						if err := hx.Guard(propC05, c); err != nil {
							hC05.Fail(t, "TestC05", c, "%v", err)
						}
					}
				}
				if d == depth {
					return
				}
				for _, p := range pieces {
					rec(val+p, d+1)
				}
			}
			rec("", 0)
		}
	}
}

// TestC05RepoLogs replays every line of the repository's test logs through the
// oracle under every enrichment type (a cheap differential: the line's own type
// plus all the others).
func TestC05RepoLogs(t *testing.T) {
	for _, l := range repoLogLines() {
		c := C05Case{AsLine: true, Input: []byte(l)}
		hC05.Eval()
		if err := hx.Guard(propC05, c); err != nil {
			hC05.Fail(t, "TestC05", c, "%v", err)
		}
		if i := strings.Index(l, "msg="); i >= 0 {
			for _, typ := range enrichTypes {
				c := C05Case{Typ: typ, Input: []byte(l[i+4:])}
				hC05.Eval()
				if err := hx.Guard(propC05, c); err != nil {
					hC05.Fail(t, "TestC05", c, "%v", err)
				}
			}
		}
	}
}

func repoLogLines() []string {
	var out []string
	files, _ := filepath.Glob("/repo/testdata/*.log")
	more, _ := filepath.Glob("/repo/auparse/testdata/*.log")
	for _, f := range append(files, more...) {
		b, err := os.ReadFile(f)
		if err != nil {
			continue
		}
		for _, l := range strings.Split(string(b), "\n") {
			if strings.TrimSpace(l) != "" {
				out = append(out, l)
			}
		}
	}
	return out
}

// ---------------------------------------------------------------------------
// native fuzz targets (thorough tier): same oracle, coverage-guided inputs

func fuzzSeeds(f *testing.F, lines bool) {
	for i, l := range repoLogLines() {
		if i%7 != 0 {
			continue
		}
		if lines {
			f.Add(uint16(0), l)
		} else if j := strings.Index(l, "msg="); j >= 0 {
			typ := uint16(1300)
			if m, err := auparse.ParseLogLine(l); err == nil {
				typ = uint16(m.RecordType)
			}
			f.Add(typ, l[j+4:])
		}
	}
	for _, tok := range hostileInserts {
		f.Add(uint16(1309), "audit(1.000:2): argc=2 a0=41 "+tok)
		f.Add(uint16(1306), "audit(1.000:2): "+tok)
	}
}

func FuzzParse(f *testing.F) {
	fuzzSeeds(f, false)
	f.Fuzz(func(t *testing.T, typ uint16, msg string) {
		c := C05Case{Typ: typ, Input: []byte(msg)}
		if _, _, err := totalityOracle(c); err != nil {
			t.Fatalf("VERIF-VIOLATION property=C05 case=fuzz\n%s: %v", c.Describe(), err)
		}
		// the same text under the types that have their own enrichment
		for _, et := range enrichTypes {
			c.Typ = et
			if _, _, err := totalityOracle(c); err != nil {
				t.Fatalf("VERIF-VIOLATION property=C05 case=fuzz\n%s: %v", c.Describe(), err)
			}
		}
	})
}

func FuzzParseLogLine(f *testing.F) {
	fuzzSeeds(f, true)
	f.Fuzz(func(t *testing.T, _ uint16, line string) {
		c := C05Case{AsLine: true, Input: []byte(line)}
		if _, _, err := totalityOracle(c); err != nil {
			t.Fatalf("VERIF-VIOLATION property=C05 case=fuzz\n%s: %v", c.Describe(), err)
		}
	})
}
