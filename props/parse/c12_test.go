package parse

import (
	"encoding/hex"
	"fmt"
	"net"
	"sort"
	"strconv"
	"strings"
	"testing"

	"github.com/elastic/go-libaudit/v2/auparse"
	"pgregory.net/rapid"

	"verif/internal/hx"
	"verif/internal/kenc"
	"verif/internal/recgen"
	"verif/internal/uapi"
)

// C12 — Data() recovers the values the kernel encoded into a record.

var hC12 = hx.New("C12", "rapid-generated records written by an independent kernel-style encoder (internal/kenc: untrusted-string rule, always-hex TTY data, NUL-joined proctitle, struct sockaddr in hex, msg='…' user payloads) with arbitrary field values (bytes 0x01-0xFF, biased to quotes, '=', spaces, backslashes, high bytes; excluded as the property says: values that begin/end with a quote character or end in a backslash) for SYSCALL, SECCOMP, CWD, PATH, PROCTITLE, USER_CMD, TTY, USER_TTY, EXECVE, SOCKADDR (inet/inet6/unix/netlink/other) and generic user records; exhaustive sweeps of every (arch, syscall) entry of the exported tables and of every errno of the UAPI snapshot. Oracle: original value per field / fixed rules for derived fields (errno names from the kernel header snapshot). Non-trivial = record with a hex-encoded decoded value, a sockaddr, or a derived field; distinct by hash of the raw record")

type C12Case struct {
	Kind string            `json:"kind"`
	Rec  kenc.Rec          `json:"rec"`
	Want map[string]string `json:"want,omitempty"` // extra expectations the walker cannot derive (sockaddr, proctitle)
}

func (c C12Case) Describe() string {
	return fmt.Sprintf("kind=%s type=%d raw=%q", c.Kind, c.Rec.Type, c.Rec.Raw())
}

func genC12(t *rapid.T) C12Case {
	kind := rapid.SampledFrom([]string{"syscall", "syscall", "seccomp", "cwd", "path", "proctitle", "usercmd", "tty", "usertty",
		"execve", "sockaddr", "sockaddr", "user", "kthread", "placeholders", "plainhex"}).Draw(t, "kind")
	c := C12Case{Kind: kind}
	switch kind {
	case "syscall", "seccomp", "kthread":
		typ := uint16(recgen.SYSCALL)
		if kind == "seccomp" {
			typ = recgen.SECCOMP
		}
		exe := recgen.Val(t, "exe", recgen.ValOpts{})
		if kind == "kthread" {
			exe = nil
		}
		var keys [][]byte
		for i, n := 0, rapid.IntRange(0, 3).Draw(t, "nkeys"); i < n; i++ {
			keys = append(keys, recgen.Val(t, "key", recgen.ValOpts{SafeOnly: true, MaxLen: 8}))
		}
		c.Rec = recgen.Syscall(t, typ, exe, recgen.Val(t, "comm", recgen.ValOpts{MaxLen: 15}), keys)
	case "cwd":
		c.Rec = kenc.Rec{Type: recgen.CWD, Fields: []kenc.F{kenc.U("cwd", string(recgen.Val(t, "cwd", recgen.ValOpts{MaxLen: 60})))}}
	case "path":
		c.Rec = recgen.Path(t, rapid.IntRange(0, 4).Draw(t, "item"), recgen.Val(t, "name", recgen.ValOpts{MaxLen: 60}),
			rapid.SampledFrom([]uint32{0o100644, 0o040755, 0o020620, 0o060660, 0o120777, 0o140755, 0o010644, 0o104755}).Draw(t, "mode"))
	case "proctitle":
		var title string
		c.Rec, title = recgen.Proctitle(t)
		c.Want = map[string]string{"proctitle": title}
	case "usercmd":
		c.Rec = recgen.UserCmd(t)
	case "tty":
		c.Rec = recgen.Tty(t, false)
	case "usertty":
		c.Rec = recgen.Tty(t, true)
	case "execve":
		c.Rec = recgen.Execve(t, 14) // two-digit argument keys too
	case "sockaddr":
		c.Rec, c.Want = recgen.Sockaddr(t)
	case "user":
		c.Rec = recgen.UserRecord(t, rapid.SampledFrom([]uint16{recgen.CRED_DISP, recgen.USER_START, recgen.USER_END, recgen.USER_AUTH, recgen.USER_ACCT, recgen.CRED_ACQ, recgen.USER_LOGIN, recgen.SERVICE_ST, 1131, 2404}).Draw(t, "utype"))
	case "plainhex":
		// A plain (unquoted) token that merely looks like hex but is not the kernel's
		// upper-case encoding must stay unchanged, also in fields that Data() decodes.
		tok := rapid.StringMatching(`([0-9a-f]{2}){1,6}`).Draw(t, "tok")
		if !strings.ContainsAny(tok, "abcdef") {
			tok += "ad"
		}
		if rapid.Bool().Draw(t, "mixed") {
			tok = "DEAD" + tok
		}
		switch rapid.IntRange(0, 4).Draw(t, "which") {
		case 0:
			c.Rec = recgen.UserRecord(t, recgen.USER_LOGIN)
			c.Rec.User[1] = kenc.P("acct", tok)
		case 1:
			c.Rec = recgen.UserCmd(t)
			c.Rec.User[1] = kenc.P("cmd", tok)
		case 2:
			c.Rec = kenc.Rec{Type: recgen.CWD, Fields: []kenc.F{kenc.P("cwd", tok)}}
		case 3:
			c.Rec = kenc.Rec{Type: recgen.PATH, Fields: []kenc.F{kenc.P("item", "0"), kenc.P("name", tok), kenc.P("inode", "2")}}
		default:
			c.Rec = kenc.Rec{Type: recgen.EXECVE, Fields: []kenc.F{kenc.P("argc", "2"), kenc.P("a0", tok), kenc.U("a1", "x y")}}
		}
	case "placeholders":
		// decodable fields written as placeholders (what the kernel prints when the value is unavailable)
		switch rapid.IntRange(0, 4).Draw(t, "which") {
		case 0:
			c.Rec = kenc.Rec{Type: recgen.PROCTITLE, Fields: []kenc.F{kenc.P("proctitle", "(null)")}}
		case 1:
			c.Rec = recgen.Path(t, 0, nil, 0o100644)
		case 2:
			c.Rec = kenc.Rec{Type: recgen.CWD, Fields: []kenc.F{kenc.P("cwd", "(null)"), kenc.P("x", "1")}}
		case 3:
			c.Rec = recgen.Tty(t, false)
			c.Rec.Fields[len(c.Rec.Fields)-1] = kenc.P("data", rapid.SampledFrom([]string{"?", "(null)", `""`}).Draw(t, "ph"))
		default:
			c.Rec = recgen.UserCmd(t)
			c.Rec.User[1] = kenc.P("cmd", rapid.SampledFrom([]string{"?", "(null)", `""`, "?,"}).Draw(t, "ph"))
		}
	}
	recgen.Header(t, &c.Rec)
	return c
}

func decodedKey(typ uint16, k string) bool {
	switch {
	case k == "cwd":
		return true
	case k == "exe":
		return typ == recgen.SYSCALL || typ == recgen.SECCOMP
	case k == "proctitle":
		return typ == recgen.PROCTITLE
	case k == "cmd":
		return typ == recgen.USER_CMD
	case k == "data":
		return typ == recgen.TTY || typ == recgen.USER_TTY
	case k == "name":
		return typ == recgen.PATH
	case typ == recgen.EXECVE && len(k) >= 2 && k[0] == 'a':
		_, err := strconv.Atoi(k[1:])
		return err == nil
	}
	return false
}

var errnoNames = uapi.ErrnoNames()

// parseSomethingElse decodes two unrelated records completely: results handed out earlier must stay as they were.
func parseSomethingElse() error { return parseOthers(5) }

var otherLines = []string{
	`type=SYSCALL msg=audit(1700000000.123:4711): arch=40000003 syscall=5 success=no exit=-13 a0=1 a1=2 a2=3 a3=4 items=1 ppid=7 pid=8 auid=9 uid=10 gid=11 euid=12 suid=13 fsuid=14 egid=15 sgid=16 fsgid=17 tty=pts9 ses=18 comm="other" exe="/bin/other" subj=a:b:c:s0 key="otherkey"`,
	`type=USER_LOGIN msg=audit(1700000001.456:4712): pid=1 uid=0 auid=5 ses=6 msg='op=login acct="someone" exe="/bin/login" hostname=h addr=10.0.0.1 terminal=tty1 res=failed'`,
	`type=EXECVE msg=audit(1700000002.789:4713): argc=3 a0="o0" a1="o1" a2=6F32`,
	`type=SOCKADDR msg=audit(1700000003.000:4714): saddr=020000357F0000010000000000000000`,
	`type=PROCTITLE msg=audit(1700000004.000:4715): proctitle=6F7468657200746974`,
}

func othersDigest(n int) string {
	var b strings.Builder
	for _, l := range otherLines[:n] {
		m, err := auparse.ParseLogLine(l)
		if err != nil {
			fmt.Fprintf(&b, "error %v\n", err)
			continue
		}
		d, derr := m.Data()
		tg, terr := m.Tags()
		fmt.Fprintf(&b, "%d %d %v | %q %v | %q %v | %q\n", m.RecordType, m.Sequence, m.Timestamp.UnixNano(), d, derr, tg, terr, fmt.Sprint(m.ToMapStr()))
	}
	return b.String()
}

// othersRef: how the fixed records decode when the process starts, before any generated input has been seen
var othersRef = func() (r [6]string) {
	for n := range r {
		r[n] = othersDigest(n)
	}
	return r
}()

// parseOthers decodes n fixed records of other events. What they decode to never depends on what was parsed
// before them: the result is compared with the one of process start.
func parseOthers(n int) error {
	if d := othersDigest(n); d != othersRef[n] {
		return fmt.Errorf("fixed records decoded after this input differ from how they decoded when the process started:\n  now   %s\n  start %s", d, othersRef[n])
	}
	return nil
}

// sibling returns the record with every value cut in half or extended: decoding it first must not change how
// the record itself is decoded (a cache keyed by part of its input would show here).
func sibling(r kenc.Rec, extend bool) kenc.Rec {
	alter := func(fs []kenc.F) []kenc.F {
		out := append([]kenc.F(nil), fs...)
		for i := range out {
			v := out[i].V
			if extend {
				out[i].V = append(append([]byte(nil), v...), 'A')
			} else if len(v) > 1 {
				out[i].V = append([]byte(nil), v[:len(v)/2]...)
			}
		}
		return out
	}
	r.Fields, r.User, r.Tail = alter(r.Fields), alter(r.User), alter(r.Tail)
	return r
}

func propC12(c C12Case) error {
	raw := c.Rec.Raw()
	typ := auparse.AuditMessageType(c.Rec.Type)
	for _, ext := range []bool{false, true} {
		if sm, err := auparse.Parse(typ, sibling(c.Rec, ext).Raw()); err == nil {
			_, _ = sm.Data()
		}
	}
	m, err := auparse.Parse(typ, raw)
	if err != nil {
		return fmt.Errorf("Parse(%d, %q): %v", c.Rec.Type, raw, err)
	}
	d, err := m.Data()
	if err != nil {
		return fmt.Errorf("Data() of %q failed: %v (all fields lost)", raw, err)
	}
	if err := parseSomethingElse(); err != nil { // what Data() returned must not depend on what is parsed afterwards, nor the other way round
		return err
	}
	hexed, derived := false, false
	fields := append(append(append([]kenc.F(nil), c.Rec.Fields...), c.Rec.User...), c.Rec.Tail...)
	var archName string
	for _, f := range fields {
		if f.K == "arch" {
			if code, err := strconv.ParseUint(string(f.V), 16, 32); err == nil {
				archName = auparse.AuditArchNames[auparse.AuditArch(code)]
			}
		}
	}
	for _, f := range fields {
		if f.Enc == kenc.Bare {
			continue
		}
		k, written := f.K, f.Value()
		got, present := d[k]
		fail := func(want string) error {
			return fmt.Errorf("record %q: field %s = %q (present=%v), want %q (written as %s)", raw, k, got, present, want, written)
		}
		if k == "key" || k == "sig" || k == "saddr" || (k == "proctitle" && c.Want != nil) {
			continue // key moves to Tags; sig becomes a signal name; saddr and proctitle are checked through c.Want
		}
		if recgen.Placeholder(written) {
			if present {
				return fmt.Errorf("record %q: field %s written as the placeholder %s must be dropped, Data() has %q", raw, k, written, got)
			}
			continue
		}
		if f.Enc != kenc.Plain {
			want := string(f.V)
			isHex := !strings.HasPrefix(written, `"`)
			if !decodedKey(c.Rec.Type, k) && isHex {
				want = written // not a field Data() decodes: the hex text stays as it is
			}
			if isHex && decodedKey(c.Rec.Type, k) {
				hexed = true
			}
			if !present || got != want {
				return fail(want)
			}
			continue
		}
		v := string(f.V)
		switch k {
		case "success", "res":
			derived = true
			want := "fail"
			if v == "yes" || v == "success" || v == "1" {
				want = "success"
			}
			if _, still := d[k]; still {
				return fmt.Errorf("record %q: %s must be replaced by result", raw, k)
			}
			if d["result"] != want {
				return fmt.Errorf("record %q: %s=%s must give result=%s, got %q", raw, k, v, want, d["result"])
			}
		case "auid", "ses", "old-auid":
			want := v
			if v == "4294967295" || v == "-1" {
				want, derived = "unset", true
			}
			if !present || got != want {
				return fail(want)
			}
		case "exit":
			n, _ := strconv.Atoi(v)
			names := errnoNames[-n]
			if n < 0 && len(names) > 0 {
				derived = true
				ok := false
				for _, nm := range names {
					ok = ok || got == nm
				}
				if !ok {
					return fmt.Errorf("record %q: exit=%s must become the errno name %v (kernel headers), got %q", raw, v, names, got)
				}
			} else if !present || got != v {
				return fail(v)
			}
		case "arch":
			if archName != "" {
				derived = true
				if got != archName {
					return fail(archName)
				}
			} else if !present {
				return fail("(some rendering of the unknown arch)")
			}
		case "syscall":
			n, _ := strconv.Atoi(v)
			want := v
			if name, ok := auparse.AuditSyscalls[archName][n]; ok && archName != "" {
				want, derived = name, true
			}
			if !present || got != want {
				return fail(want)
			}
		default:
			if !present || got != v {
				return fail(v)
			}
		}
	}
	for k, want := range c.Want {
		got, present := d[k]
		if strings.HasPrefix(want, "IP6:") {
			b, _ := hex.DecodeString(want[4:])
			if ip := net.ParseIP(got); ip == nil || !ip.Equal(net.IP(b)) {
				return fmt.Errorf("record %q: %s = %q, want the address %s", raw, k, got, net.IP(b))
			}
			continue
		}
		if !present || got != want {
			return fmt.Errorf("record %q: %s = %q (present=%v), want %q", raw, k, got, present, want)
		}
	}
	if c.Kind == "sockaddr" {
		if _, still := d["saddr"]; still && (c.Want["family"] == "ipv4" || c.Want["family"] == "ipv6" || c.Want["family"] == "unix") {
			return fmt.Errorf("record %q: decoded socket address still carries the raw saddr", raw)
		}
	}
	hC12.Class("kind-" + c.Kind)
	if hexed {
		hC12.Class("hex-encoded-decoded-value")
	}
	if derived {
		hC12.Class("derived-field")
	}
	if hexed || derived || c.Kind == "sockaddr" || c.Kind == "plainhex" {
		hC12.NonTrivial(hx.FP(c.Rec.Type, raw), c.Describe)
	}
	return nil
}

func TestC12Regress(t *testing.T) { hx.Regress(t, hC12, "TestC12", propC12) }

func TestC12(t *testing.T) { hx.Check(t, hC12, "TestC12", genC12, propC12) }

// TestC12Tables sweeps every (arch, syscall number) of the exported tables, a
// few numbers outside them, and every errno of the kernel header snapshot.
func TestC12Tables(t *testing.T) {
	codeOf := map[string]uint32{}
	for code, name := range auparse.AuditArchNames {
		codeOf[name] = uint32(code)
	}
	var arches []string
	for a := range auparse.AuditSyscalls {
		arches = append(arches, a)
	}
	sort.Strings(arches)
	n := 0
	run := func(c C12Case) {
		hC12.Eval()
		n++
		if err := hx.Guard(propC12, c); err != nil {
			hC12.Fail(t, "TestC12", c, "%v", err)
		}
	}
	mk := func(arch uint32, num int, exit int) C12Case {
		return C12Case{Kind: "table", Rec: kenc.Rec{Type: recgen.SYSCALL, Sec: 1, Ms: 0, Seq: uint32(n), Fields: []kenc.F{
			kenc.P("arch", strconv.FormatUint(uint64(arch), 16)), kenc.P("syscall", strconv.Itoa(num)),
			kenc.P("success", "no"), kenc.P("exit", strconv.Itoa(exit)), kenc.P("pid", "1"), kenc.U("exe", "/bin/x")}}}
	}
	for _, a := range arches {
		code, ok := codeOf[a]
		if !ok {
			t.Fatalf("syscall table for arch %q, which has no arch code", a)
		}
		var nums []int
		for num := range auparse.AuditSyscalls[a] {
			nums = append(nums, num)
		}
		sort.Ints(nums)
		for _, num := range nums {
			run(mk(code, num, 0))
		}
		for _, num := range []int{nums[len(nums)-1] + 1, 99999} {
			if _, in := auparse.AuditSyscalls[a][num]; !in {
				run(mk(code, num, 0))
			}
		}
	}
	for num := range errnoNames {
		run(mk(0xc000003e, 0, -num))
	}
	for _, num := range []int{-200, -4095, -1000000} {
		run(mk(0xc000003e, 0, num))
	}
	hC12.Extra("table_sweep_cases", n)
}
