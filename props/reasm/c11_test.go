//go:build verif

package reasm

import (
	"fmt"
	"runtime"
	"strings"
	"sync"
	"sync/atomic"
	"testing"
	"time"

	libaudit "github.com/elastic/go-libaudit/v2"
	"github.com/elastic/go-libaudit/v2/auparse"
	"pgregory.net/rapid"

	"verif/internal/hx"
)

// C11 — the Reassembler is safe under concurrent Push / Maintain / Close.
//
// Controlled form: the library is built with the `verif` tag, which adds yield
// points between its atomic steps. Worker goroutines run library calls and block
// in the yield hook until the scheduler — which runs on the test goroutine, so
// every choice is a generated value — resumes exactly one of them. A schedule
// is therefore a list of integers that rapid generates and shrinks, or that a
// depth-first enumeration walks exhaustively.

var hC11 = hx.New("C11", "controlled schedules: 2-3 workers, each a program of 1-3 operations from PushMessage (2-3 shared sequences; completing, non-completing and EOE records), Maintain and Close, with a Stream that may re-enter the Reassembler (Maintain, PushMessage of a fresh sequence, of an EOE or of a terminating record for a shared sequence, Close) from inside callbacks; maxInFlight 0..2; timeout 1h or -1s; the interleaving at the granularity of the Reassembler's atomic steps (yield hook, build tag verif) is a generated list of choices: random (rapid, shrinks with the programs) and bounded-exhaustive depth-first enumeration of all schedules of a catalogue of programs. Uncontrolled form: goroutines on real threads under the race detector. Oracle: no message delivered twice, callbacks single-sequence and non-empty, every message whose push returned before the first Close was invoked is delivered exactly once when all calls have returned, exactly one Close returns nil, no deadlock (declared only when all workers run freely and make no progress), race detector silent. Non-trivial = schedule with at least one preemption inside an operation and at least one delivery; distinct by hash of (programs, schedule actually taken)")

type SOp struct {
	K   string `json:"k"` // push, maintain, close
	Seq uint32 `json:"seq,omitempty"`
	Typ uint16 `json:"typ,omitempty"`
}

type C11Case struct {
	MaxInFlight int  `json:"max_in_flight"`
	Expired     bool `json:"expired"` // timeout -1s instead of 1h
	// Short: timeout 50us, and the programs may contain "sleep" (400us of real time): events that are buffered
	// when their push returns and stale by the time another worker's Maintain, push or Close looks at them
	Short    bool    `json:"short,omitempty"`
	Progs    [][]SOp `json:"progs"`
	Reenter  string  `json:"reenter,omitempty"` // "", maintain, push, close
	Schedule []int   `json:"schedule"`
}

func (c C11Case) Describe() string {
	var b strings.Builder
	to := "1h"
	if c.Expired {
		to = "-1s"
	}
	if c.Short {
		to = "50us"
	}
	fmt.Fprintf(&b, "maxInFlight=%d timeout=%s stream re-enters with %q\n", c.MaxInFlight, to, c.Reenter)
	for i, p := range c.Progs {
		fmt.Fprintf(&b, " worker %d:", i)
		for _, o := range p {
			if o.K == "push" {
				fmt.Fprintf(&b, " push(seq %d type %d)", o.Seq, o.Typ)
			} else {
				fmt.Fprintf(&b, " %s", o.K)
			}
		}
		b.WriteString("\n")
	}
	fmt.Fprintf(&b, " schedule (index among runnable workers at each step): %v\n", c.Schedule)
	return b.String()
}

// ---------------------------------------------------------------------------
// cooperative scheduler

type sworker struct {
	id     int
	resume chan struct{}
	done   bool
	point  string
}

type sched struct {
	workers []*sworker
	cur     *sworker
	event   chan *sworker
	freeRun atomic.Bool // yield points are no-ops (used once a worker blocked outside a yield point)
	trace   []string
}

func (s *sched) yield(point string) {
	if s.freeRun.Load() {
		return
	}
	w := s.cur // exactly one worker runs at a time
	w.point = point
	s.event <- w
	<-w.resume
}

// heldChanged: a Stream may keep the slices it is given; when all calls have returned each of them must still
// hold the messages it held when it was delivered.
func heldChanged(held []heldSlice) string {
	for i, hs := range held {
		for j := range hs.then {
			if j >= len(hs.given) || hs.given[j] != hs.then[j] {
				return fmt.Sprintf("the slice handed to ReassemblyComplete call %d (%d messages, sequence %d) was rewritten afterwards: element %d is another message now", i, len(hs.then), hs.then[0].Sequence, j)
			}
		}
	}
	return ""
}

type c11stream struct {
	held     []heldSlice
	r        *libaudit.Reassembler
	mu       sync.Mutex // only contended in free-run mode
	got      map[*auparse.AuditMessage]int
	bad      string
	reenter  string
	depth    int
	run      *c11run
	fresh    uint32
	delivers int
}

type pushRec struct {
	m        *auparse.AuditMessage
	returned bool
	before   bool // the push returned before the first Close was invoked
}

type c11run struct {
	mu           sync.Mutex
	pushes       []*pushRec
	closeInvoked bool
	closeCalls   int
	closeOK      int
}

func (ru *c11run) push(r *libaudit.Reassembler, seq uint32, typ uint16) {
	p := &pushRec{m: &auparse.AuditMessage{RecordType: auparse.AuditMessageType(typ), Sequence: seq}}
	ru.mu.Lock()
	ru.pushes = append(ru.pushes, p)
	ru.mu.Unlock()
	r.PushMessage(p.m)
	ru.mu.Lock()
	p.returned = true
	p.before = !ru.closeInvoked
	ru.mu.Unlock()
}

func (ru *c11run) close(r *libaudit.Reassembler) {
	ru.mu.Lock()
	ru.closeInvoked = true
	ru.closeCalls++
	ru.mu.Unlock()
	err := r.Close()
	ru.mu.Lock()
	if err == nil {
		ru.closeOK++
	}
	ru.mu.Unlock()
}

func (s *c11stream) ReassemblyComplete(msgs []*auparse.AuditMessage) {
	s.mu.Lock()
	s.delivers++
	s.held = append(s.held, heldSlice{given: msgs, then: append([]*auparse.AuditMessage(nil), msgs...)})
	if len(msgs) == 0 {
		s.bad = "ReassemblyComplete with no messages"
	}
	for _, m := range msgs {
		s.got[m]++
		if m.Sequence != msgs[0].Sequence {
			s.bad = fmt.Sprintf("callback mixes sequences %d and %d", msgs[0].Sequence, m.Sequence)
		}
	}
	re := s.reenter != "" && s.depth == 0
	if re {
		s.depth++
	}
	s.fresh++
	fresh := 1000 + s.fresh
	s.mu.Unlock()
	if re {
		switch s.reenter {
		case "maintain":
			_ = s.r.Maintain()
		case "push":
			s.run.push(s.r, fresh, 1300)
		case "pusheoe":
			// end-of-event for one of the shared sequences: may release a whole batch of buffered events
			s.run.push(s.r, 1+(fresh%3), eoe)
		case "pushdone":
			// a terminating record for one of the shared sequences
			s.run.push(s.r, 1+(fresh%3), 1327)
		case "close":
			s.run.close(s.r)
		}
		s.mu.Lock()
		s.depth--
		s.mu.Unlock()
	}
}

// EventsLost is a Stream callback like the other one: a Stream that re-enters does so from here, too (Maintain: a
// consumer that reacts to a loss by having the buffer looked at).
func (s *c11stream) EventsLost(int) {
	s.mu.Lock()
	re := s.reenter != "" && s.depth == 0 && s.r != nil
	if re {
		s.depth++
	}
	s.mu.Unlock()
	if re {
		_ = s.r.Maintain()
		s.mu.Lock()
		s.depth--
		s.mu.Unlock()
	}
}

type c11result struct {
	violation string
	steps     []int // number of runnable workers at each decision
	taken     []int // choice actually taken at each decision
	preempted bool
	delivers  int
	free      bool
}

const (
	yieldGrace   = 2 * time.Second  // a resumed worker reaches its next yield point in microseconds
	freeWatchdog = 10 * time.Second // all workers running freely and not finishing: deadlock
)

// runSchedule executes the programs under the given schedule.
func runSchedule(c C11Case) c11result {
	st := &c11stream{got: map[*auparse.AuditMessage]int{}, reenter: c.Reenter}
	timeout := time.Hour
	if c.Expired {
		timeout = -time.Second
	}
	if c.Short {
		timeout = 50 * time.Microsecond
	}
	r, err := libaudit.NewReassembler(c.MaxInFlight, timeout, st)
	if err != nil {
		return c11result{violation: "NewReassembler: " + err.Error()}
	}
	ru := &c11run{}
	st.r, st.run = r, ru
	s := &sched{event: make(chan *sworker)}
	libaudit.VerifYield = s.yield
	defer func() { libaudit.VerifYield = nil }()
	var wg sync.WaitGroup
	for i, p := range c.Progs {
		w := &sworker{id: i, resume: make(chan struct{})}
		s.workers = append(s.workers, w)
		wg.Add(1)
		go func(w *sworker, p []SOp) {
			defer wg.Done()
			<-w.resume
			for _, o := range p {
				switch o.K {
				case "push":
					ru.push(r, o.Seq, o.Typ)
				case "maintain":
					_ = r.Maintain()
				case "close":
					ru.close(r)
				case "sleep":
					time.Sleep(400 * time.Microsecond)
				}
			}
			if !s.freeRun.Load() {
				w.done = true
				s.event <- w
			}
		}(w, p)
	}
	res := c11result{}
	lastWorker := -1
	for {
		var runnable []*sworker
		for _, w := range s.workers {
			if !w.done {
				runnable = append(runnable, w)
			}
		}
		if len(runnable) == 0 {
			break
		}
		ch := 0
		if len(res.taken) < len(c.Schedule) {
			ch = c.Schedule[len(res.taken)] % len(runnable)
			if ch < 0 {
				ch = -ch
			}
		}
		res.steps = append(res.steps, len(runnable))
		res.taken = append(res.taken, ch)
		w := runnable[ch]
		if lastWorker >= 0 && lastWorker != w.id && !s.workers[lastWorker].done && s.workers[lastWorker].point != "" {
			res.preempted = true
		}
		lastWorker = w.id
		s.cur = w
		w.resume <- struct{}{}
		select {
		case <-s.event:
		case <-time.After(yieldGrace):
			// The worker neither finished nor reached a yield point: it is blocked on something a
			// parked worker holds. Let everybody run freely, as in a real execution; only if nobody
			// finishes then is it a deadlock.
			res.free = true
			s.freeRun.Store(true)
			stopRelease := make(chan struct{})
			go func() {
				// keep releasing: a worker may still park in a yield it entered just before the flag flipped
				for {
					for _, o := range s.workers {
						select {
						case o.resume <- struct{}{}:
						default:
						}
					}
					select {
					case <-stopRelease:
						return
					case <-time.After(200 * time.Microsecond):
					}
				}
			}()
			defer close(stopRelease)
			fin := make(chan struct{})
			go func() { wg.Wait(); close(fin) }()
			// drain events of workers that were between the flag check and the send
			go func() {
				for range s.event {
				}
			}()
			select {
			case <-fin:
			case <-time.After(freeWatchdog):
				res.violation = fmt.Sprintf("deadlock: worker %d did not come back from the step after %q and, with all workers released, nobody finished within %v", w.id, w.point, freeWatchdog)
				return res
			}
			goto done
		}
	}
done:
	res.delivers = st.delivers
	if hc := heldChanged(st.held); hc != "" && st.bad == "" {
		st.bad = hc
	}
	if st.bad != "" {
		res.violation = st.bad
		return res
	}
	for m, n := range st.got {
		if n > 1 {
			res.violation = fmt.Sprintf("the message (seq %d type %d) was delivered %d times", m.Sequence, m.RecordType, n)
			return res
		}
		if m.RecordType == auparse.AUDIT_EOE {
			res.violation = fmt.Sprintf("an EOE record (seq %d) was delivered", m.Sequence)
			return res
		}
	}
	if ru.closeCalls > 0 {
		if ru.closeOK != 1 {
			res.violation = fmt.Sprintf("%d Close calls were made and %d of them returned nil; exactly one must succeed", ru.closeCalls, ru.closeOK)
			return res
		}
		if !res.free {
			for _, p := range ru.pushes {
				if p.before && p.m.RecordType != auparse.AUDIT_EOE && st.got[p.m] != 1 {
					res.violation = fmt.Sprintf("the message (seq %d type %d) whose push returned before Close was invoked was delivered %d times after all calls returned", p.m.Sequence, p.m.RecordType, st.got[p.m])
					return res
				}
			}
		}
	}
	return res
}

func propC11(c C11Case) error {
	res := runSchedule(c)
	if res.violation != "" {
		c.Schedule = res.taken
		return fmt.Errorf("%s\n  %s", c.Describe(), res.violation)
	}
	if res.free {
		hC11.Class("schedule-not-controllable")
	}
	if res.preempted && res.delivers > 0 {
		hC11.Class("schedule-with-preemption-and-delivery")
		hC11.NonTrivial(hx.FP(fmt.Sprint(c.MaxInFlight, c.Expired, c.Reenter, c.Progs, res.taken)), func() string { c.Schedule = res.taken; return c.Describe() })
	}
	return nil
}

var c11Types = []uint16{1300, 1300, 1302, 1327, 1100, eoe}

func genC11(rt *rapid.T) C11Case {
	c := C11Case{MaxInFlight: rapid.IntRange(0, 2).Draw(rt, "maxInFlight"), Expired: rapid.IntRange(0, 3).Draw(rt, "expired") == 0}
	if !c.Expired && rapid.IntRange(0, 3).Draw(rt, "short") == 0 {
		c.Short = true
		c.MaxInFlight = rapid.IntRange(1, 3).Draw(rt, "maxInFlightShort")
	}
	c.Reenter = rapid.SampledFrom([]string{"", "", "maintain", "push", "close", "pusheoe", "pushdone"}).Draw(rt, "reenter")
	nw := rapid.IntRange(2, 3).Draw(rt, "workers")
	for i := 0; i < nw; i++ {
		var p []SOp
		for j, n := 0, rapid.IntRange(1, 3).Draw(rt, "nops"); j < n; j++ {
			kind := rapid.IntRange(0, 9).Draw(rt, "kind")
			if c.Short && j > 0 && kind >= 8 {
				p = append(p, SOp{K: "sleep"})
				continue
			}
			switch kind {
			case 0, 1:
				p = append(p, SOp{K: "maintain"})
			case 2, 3:
				p = append(p, SOp{K: "close"})
			default:
				p = append(p, SOp{K: "push", Seq: rapid.Uint32Range(1, 3).Draw(rt, "seq"), Typ: rapid.SampledFrom(c11Types).Draw(rt, "typ")})
			}
		}
		c.Progs = append(c.Progs, p)
	}
	c.Schedule = rapid.SliceOfN(rapid.IntRange(0, 2), 0, 60).Draw(rt, "schedule")
	return c
}

func TestC11Regress(t *testing.T) { hx.Regress(t, hC11, "TestC11", propC11) }

func TestC11(t *testing.T) { hx.Check(t, hC11, "TestC11", genC11, propC11) }

// ---------------------------------------------------------------------------
// bounded-exhaustive enumeration of all schedules of a catalogue of programs

func P(seq uint32, typ uint16) SOp { return SOp{K: "push", Seq: seq, Typ: typ} }

var (
	opM = SOp{K: "maintain"}
	opC = SOp{K: "close"}
)

type catEntry struct {
	name string
	c    C11Case
}

func c11Catalogue() []catEntry {
	return []catEntry{
		{"short: push,sleep | maintain | close", C11Case{MaxInFlight: 2, Short: true, Progs: [][]SOp{{P(1, 1300), {K: "sleep"}}, {opM}, {opC}}}},
		{"short: push,push,sleep | push,maintain,close", C11Case{MaxInFlight: 3, Short: true, Progs: [][]SOp{{P(1, 1300), P(2, 1300), {K: "sleep"}}, {P(3, 1300), opM, opC}}}},
		{"push,push | push,eoe", C11Case{MaxInFlight: 1, Progs: [][]SOp{{P(1, 1300), P(1, 1327)}, {P(2, 1300), P(1, eoe)}}}},
		{"push,push | maintain,close", C11Case{MaxInFlight: 1, Progs: [][]SOp{{P(1, 1300), P(2, 1327)}, {opM, opC}}}},
		{"push,push | close | close", C11Case{MaxInFlight: 0, Progs: [][]SOp{{P(1, 1300), P(2, 1300)}, {opC}, {opC}}}},
		{"push | close", C11Case{MaxInFlight: 2, Progs: [][]SOp{{P(1, 1300)}, {opC}}}},
		{"push,close | push,close", C11Case{MaxInFlight: 2, Progs: [][]SOp{{P(1, 1300), opC}, {P(2, 1300), opC}}}},
		{"push,push | push,push (same seq)", C11Case{MaxInFlight: 1, Progs: [][]SOp{{P(1, 1300), P(1, 1302)}, {P(1, 1307), P(1, 1327)}}}},
		{"expired: push,maintain | push,close", C11Case{MaxInFlight: 2, Expired: true, Progs: [][]SOp{{P(1, 1300), opM}, {P(2, 1300), opC}}}},
		{"overflow: push,push | push,maintain", C11Case{MaxInFlight: 0, Progs: [][]SOp{{P(1, 1300), P(2, 1300)}, {P(3, 1300), opM}}}},
		{"reenter maintain: push,push | push,close", C11Case{MaxInFlight: 1, Reenter: "maintain", Progs: [][]SOp{{P(1, 1327), P(2, 1300)}, {P(3, 1327), opC}}}},
		{"reenter close: push,push | push,maintain", C11Case{MaxInFlight: 1, Reenter: "close", Progs: [][]SOp{{P(1, 1327), P(2, 1300)}, {P(3, 1327), opM}}}},
		{"reenter push: push | push,close", C11Case{MaxInFlight: 1, Reenter: "push", Progs: [][]SOp{{P(1, 1327)}, {P(2, 1327), opC}}}},
		{"reenter close: close | push", C11Case{MaxInFlight: 0, Reenter: "close", Progs: [][]SOp{{opC}, {P(1, 1300)}}}},
		{"reenter pusheoe: push,push,push,push | maintain", C11Case{MaxInFlight: 3, Reenter: "pusheoe", Progs: [][]SOp{{P(1, 1300), P(2, 1327), P(3, 1327), P(1, eoe)}, {opM}}}},
		{"reenter pushdone: push,push,push | push,close", C11Case{MaxInFlight: 3, Reenter: "pushdone", Progs: [][]SOp{{P(1, 1300), P(2, 1300), P(3, 1327)}, {P(1, 1327), opC}}}},
		{"maintain | maintain | push,push", C11Case{MaxInFlight: 0, Progs: [][]SOp{{opM}, {opM}, {P(1, 1300), P(2, 1327)}}}},
		{"eoe: push,eoe | push,eoe", C11Case{MaxInFlight: 2, Progs: [][]SOp{{P(1, 1300), P(2, eoe)}, {P(2, 1300), P(1, eoe)}}}},
		// larger programs: only in the thorough tier
		{"T push,push,close | push,maintain", C11Case{MaxInFlight: 1, Progs: [][]SOp{{P(1, 1300), P(1, 1327), opC}, {P(2, 1300), opM}}}},
		{"T push,push | push,maintain | close", C11Case{MaxInFlight: 1, Progs: [][]SOp{{P(1, 1300), P(2, 1327)}, {P(1, 1302), opM}, {opC}}}},
		{"T reenter maintain: push,push | push,push | close", C11Case{MaxInFlight: 0, Reenter: "maintain", Progs: [][]SOp{{P(1, 1300), P(2, 1300)}, {P(3, 1300), P(1, 1327)}, {opC}}}},
		{"T expired, reenter push: push,push | push,close", C11Case{MaxInFlight: 1, Expired: true, Reenter: "push", Progs: [][]SOp{{P(1, 1300), P(2, 1300)}, {P(1, 1302), opC}}}},
		{"T close | close | close | push", C11Case{MaxInFlight: 1, Progs: [][]SOp{{opC}, {opC}, {opC}, {P(1, 1300)}}}},
		{"T push,maintain,close | push,maintain,close", C11Case{MaxInFlight: 0, Progs: [][]SOp{{P(1, 1300), opM, opC}, {P(2, 1300), opM, opC}}}},
	}
}

// dfs enumerates schedules by re-execution (odometer over the choice list) and
// returns how many were run and whether the space was exhausted.
func dfs(t *testing.T, e catEntry, limit int) (count int, exhausted bool) {
	var choices []int
	for {
		c := e.c
		c.Schedule = append([]int(nil), choices...)
		hC11.Eval()
		res := runSchedule(c)
		count++
		if res.violation != "" {
			c.Schedule = res.taken
			hC11.Fail(t, "TestC11", c, "%s\n  [catalogue program %q, schedule %d of the enumeration]\n  %s", c.Describe(), e.name, count, res.violation)
		}
		if res.preempted && res.delivers > 0 {
			hC11.NonTrivial(hx.FP(e.name, res.taken), func() string { c.Schedule = res.taken; return c.Describe() })
			hC11.Class("schedule-with-preemption-and-delivery")
		}
		if count >= limit {
			return count, false
		}
		full := make([]int, len(res.steps))
		copy(full, res.taken)
		i := len(full) - 1
		for i >= 0 && full[i]+1 >= res.steps[i] {
			i--
		}
		if i < 0 {
			return count, true
		}
		full[i]++
		choices = full[:i+1]
	}
}

func TestC11Exhaustive(t *testing.T) {
	limit := hx.EnvInt("VERIF_N", 20000)
	shard, nshards := hx.Shard()
	total, complete, programs := 0, 0, 0
	for i, e := range c11Catalogue() {
		if i%nshards != shard {
			continue
		}
		if strings.HasPrefix(e.name, "T ") && !hx.Thorough() {
			continue
		}
		n, done := dfs(t, e, limit)
		total += n
		programs++
		if done {
			complete++
			hC11.Class("program-enumerated-exhaustively")
		} else {
			hC11.Class("program-enumeration-truncated")
		}
		t.Logf("%-55s schedules=%d exhausted=%v", e.name, n, done)
	}
	hC11.Extra("exhaustive_programs", complete)
	hC11.Extra("enumerated_programs", programs)
	hC11.Extra("enumerated_schedules", total)
}

// ---------------------------------------------------------------------------
// uncontrolled stress under the race detector

type stressStream struct {
	held   []heldSlice
	mu     sync.Mutex
	got    map[*auparse.AuditMessage]int
	gotRaw map[string]int // records that went in through Push(type, raw data), by their text
	bad    string
	r      *libaudit.Reassembler
}

func (s *stressStream) ReassemblyComplete(msgs []*auparse.AuditMessage) {
	s.mu.Lock()
	s.held = append(s.held, heldSlice{given: msgs, then: append([]*auparse.AuditMessage(nil), msgs...)})
	if len(msgs) == 0 {
		s.bad = "empty callback"
	}
	for _, m := range msgs {
		s.got[m]++
		if m.Sequence != msgs[0].Sequence {
			s.bad = "callback mixes sequences"
		}
		if m.RawData != "" {
			// parsed by the library inside Push: the header fields must be those of this record's own text
			if s.gotRaw == nil {
				s.gotRaw = map[string]int{}
			}
			s.gotRaw[m.RawData]++
			var sec int64
			var ms int
			var seq uint32
			if n, _ := fmt.Sscanf(m.RawData, "audit(%d.%d:%d):", &sec, &ms, &seq); n != 3 || seq != m.Sequence || sec != m.Timestamp.Unix() || ms != m.Timestamp.Nanosecond()/1e6 {
				s.bad = fmt.Sprintf("record %q was delivered with sequence %d and timestamp %d.%03d", m.RawData, m.Sequence, m.Timestamp.Unix(), m.Timestamp.Nanosecond()/1e6)
			}
		}
	}
	re := len(msgs) > 0 && msgs[0].Sequence%5 == 0 && msgs[0].Sequence >= 1000
	s.mu.Unlock()
	if re {
		_ = s.r.Maintain()
	}
}

func (s *stressStream) EventsLost(int) {}

func TestC11Stress(t *testing.T) {
	rounds := hx.EnvInt("VERIF_N", 60)
	libaudit.VerifYield = func(string) {
		// perturb the real schedule a little
		runtime.Gosched()
	}
	defer func() { libaudit.VerifYield = nil }()
	for it := 0; it < rounds; it++ {
		// "no deadlocks": a round takes milliseconds; one that has not returned after two minutes never will
		hC11.BeginLimit("TestC11Stress", C11Case{MaxInFlight: []int{0, 1, 2, 3, 8192, 8192}[it%6], Reenter: "maintain"}, 120*time.Second)
		st := &stressStream{got: map[*auparse.AuditMessage]int{}}
		timeout := time.Hour
		if it%3 == 1 {
			timeout = 50 * time.Microsecond
		}
		// small buffers (overflow evictions) and a buffer that never overflows (only Close flushes the incomplete events)
		maxInFlight := []int{0, 1, 2, 3, 8192, 8192}[it%6]
		r, _ := libaudit.NewReassembler(maxInFlight, timeout, st)
		st.r = r
		const G, K = 6, 150
		all := make([][]*auparse.AuditMessage, G)
		allRaw := make([][]string, G)
		pushErr := make([]error, G)
		var wg sync.WaitGroup
		for g := 0; g < G; g++ {
			wg.Add(1)
			go func(g int) {
				defer wg.Done()
				buf := make([]byte, 0, 128)
				for i := 0; i < K; i++ {
					typ, seq := auparse.AuditMessageType([]uint16{1300, 1302, eoe, 1327, 1307}[(i+g)%5]), uint32(1000+i/3+g)
					if g%2 == 1 {
						// through Push: the record is parsed inside the call (every goroutine has its own timestamps)
						raw := fmt.Sprintf("audit(%d.%03d:%d): id=%d-%d", 1700000000+g, i%1000, seq, g, i)
						if typ != auparse.AUDIT_EOE {
							allRaw[g] = append(allRaw[g], raw)
						}
						// one read buffer per goroutine, used again for the next record as a receive loop does; every
						// other record comes with the newline of its line (the parser trims it). Push copies.
						buf = append(buf[:0], raw...)
						if i%2 == 1 {
							buf = append(buf, '\n')
						}
						if err := r.Push(typ, buf); err != nil {
							pushErr[g] = err
						}
						for j := range buf {
							buf[j] = '#'
						}
					} else {
						m := &auparse.AuditMessage{RecordType: typ, Sequence: seq}
						all[g] = append(all[g], m)
						r.PushMessage(m)
					}
					if i%17 == 0 {
						_ = r.Maintain()
					}
				}
			}(g)
		}
		wg.Wait() // barrier: every push of the first phase has returned
		closeOK := int32(0)
		var cw sync.WaitGroup
		// second phase: while Close runs, other goroutines keep pushing records that open NEW events with lower
		// sequence numbers than everything buffered (they may or may not be delivered, but at most once)
		late := make([][]*auparse.AuditMessage, 3)
		for g := 0; g < 3; g++ {
			cw.Add(1)
			go func(g int) {
				defer cw.Done()
				for i := 0; i < 40; i++ {
					m := &auparse.AuditMessage{RecordType: 1300, Sequence: uint32(900 - 3*i - g)}
					late[g] = append(late[g], m)
					r.PushMessage(m)
				}
			}(g)
		}
		for g := 0; g < 3; g++ {
			cw.Add(1)
			go func() {
				defer cw.Done()
				if r.Close() == nil {
					atomic.AddInt32(&closeOK, 1)
				}
			}()
		}
		cw.Wait()
		hC11.End()
		hC11.Eval()
		c := C11Case{MaxInFlight: maxInFlight, Reenter: "maintain"}
		if hc := heldChanged(st.held); hc != "" && st.bad == "" {
			st.bad = hc
		}
		if st.bad != "" {
			hC11.Fail(t, "TestC11Stress", c, "stress round %d: %s", it, st.bad)
		}
		if closeOK != 1 {
			hC11.Fail(t, "TestC11Stress", c, "stress round %d: %d of 3 concurrent Close calls returned nil", it, closeOK)
		}
		for g := range all {
			for _, m := range all[g] {
				want := 1
				if m.RecordType == auparse.AUDIT_EOE {
					want = 0
				}
				if st.got[m] != want {
					hC11.Fail(t, "TestC11Stress", c, "stress round %d: message (seq %d type %d) pushed before Close was delivered %d times", it, m.Sequence, m.RecordType, st.got[m])
				}
			}
		}
		for g := range late {
			for _, m := range late[g] {
				if st.got[m] > 1 {
					hC11.Fail(t, "TestC11Stress", c, "stress round %d: message (seq %d) pushed while Close was running was delivered %d times", it, m.Sequence, st.got[m])
				}
			}
		}
		for g := range allRaw {
			if pushErr[g] != nil {
				hC11.Fail(t, "TestC11Stress", c, "stress round %d: Push of a well-formed record failed: %v", it, pushErr[g])
			}
			for _, raw := range allRaw[g] {
				if st.gotRaw[raw] != 1 {
					hC11.Fail(t, "TestC11Stress", c, "stress round %d: the record %q pushed (Push) before Close was delivered %d times", it, raw, st.gotRaw[raw])
				}
			}
		}
		hC11.Class("stress-round")
		hC11.NonTrivial(hx.FP("stress", it), func() string {
			return fmt.Sprintf("stress round %d: %d goroutines x %d pushes, 3 concurrent Close", it, G, K)
		})
	}
}

// TestC11CloseVsPush: many short attempts of one scenario family — a few records are pushed (their pushes
// return), then Close runs while other goroutines push records that open new events below, between and
// above the buffered ones, and Maintain is called. Whatever happens to the late records, every record of
// the first phase must have been delivered exactly once when all calls have returned. The buffer is large
// and the timeout long, so that nothing but Close flushes the first phase: windows inside Close's flush
// (between two yield points, invisible to the controlled scheduler) show up here.
func TestC11CloseVsPush(t *testing.T) {
	attempts := hx.EnvInt("VERIF_N", 4000)
	for attempt := 0; attempt < attempts; attempt++ {
		hC11.BeginLimit("TestC11CloseVsPush", C11Case{MaxInFlight: 4096}, 120*time.Second)
		st := &stressStream{got: map[*auparse.AuditMessage]int{}}
		r, _ := libaudit.NewReassembler(4096, time.Hour, st) // never reached (the constructor pre-allocates maxInFlight entries)
		st.r = r
		const base = 1 << 20
		nfirst := 1 + attempt%3
		var first []*auparse.AuditMessage
		for i := 0; i < nfirst; i++ {
			m := &auparse.AuditMessage{RecordType: 1300, Sequence: uint32(base + 7*i + 1)} // sequences not divisible by 5: no re-entrant Maintain
			first = append(first, m)
			r.PushMessage(m)
		}
		var start int32
		var wg sync.WaitGroup
		late := make([][]*auparse.AuditMessage, 3)
		for p := 0; p < 3; p++ {
			wg.Add(1)
			go func(p int) {
				defer wg.Done()
				for atomic.LoadInt32(&start) == 0 {
				}
				for i := 1; i <= 30; i++ {
					seq := uint32(base - i*3 - p) // descending: every push opens a new oldest event
					if (attempt/3)%3 == 1 {
						seq = uint32(base + 100 + i*3 + p) // ascending
					} else if (attempt/3)%3 == 2 && i%2 == 0 {
						seq = uint32(base + 7*(i%nfirst) + 1) // more records for the buffered events
					}
					m := &auparse.AuditMessage{RecordType: 1302, Sequence: seq}
					late[p] = append(late[p], m)
					r.PushMessage(m)
				}
			}(p)
		}
		closeOK := int32(0)
		for cg := 0; cg < 1+attempt%2; cg++ {
			wg.Add(1)
			go func() {
				defer wg.Done()
				for atomic.LoadInt32(&start) == 0 {
				}
				for i := 0; i < (attempt%64)*8; i++ { // a short, varying delay: Close lands in the middle of the pushes
					atomic.LoadInt32(&start)
				}
				if r.Close() == nil {
					atomic.AddInt32(&closeOK, 1)
				}
			}()
		}
		if attempt%4 == 0 {
			wg.Add(1)
			go func() {
				defer wg.Done()
				for atomic.LoadInt32(&start) == 0 {
				}
				for i := 0; i < 5; i++ {
					_ = r.Maintain()
				}
			}()
		}
		atomic.StoreInt32(&start, 1)
		wg.Wait()
		hC11.End()
		hC11.Eval()
		c := C11Case{MaxInFlight: 4096, Progs: [][]SOp{{P(uint32(base+1), 1300), opC}}}
		if closeOK != 1 {
			hC11.Fail(t, "TestC11CloseVsPush", c, "attempt %d: %d Close calls returned nil", attempt, closeOK)
		}
		st.mu.Lock()
		for _, m := range first {
			if st.got[m] != 1 {
				hC11.Fail(t, "TestC11CloseVsPush", c, "attempt %d: the record (seq %d) whose push returned before Close was invoked was delivered %d times after Close and all concurrent pushes returned", attempt, m.Sequence, st.got[m])
			}
		}
		for p := range late {
			for _, m := range late[p] {
				if st.got[m] > 1 {
					hC11.Fail(t, "TestC11CloseVsPush", c, "attempt %d: a record pushed while Close was running (seq %d) was delivered %d times", attempt, m.Sequence, st.got[m])
				}
			}
		}
		if hc := heldChanged(st.held); hc != "" && st.bad == "" {
			st.bad = hc
		}
		if st.bad != "" {
			hC11.Fail(t, "TestC11CloseVsPush", c, "attempt %d: %s", attempt, st.bad)
		}
		st.mu.Unlock()
		hC11.Class("close-vs-push-attempt")
	}
	hC11.NonTrivial(hx.FP("closevspush", attempts), func() string {
		return fmt.Sprintf("%d attempts: 1-3 buffered records, then Close (x1-2) concurrently with 3 goroutines x 30 pushes of new/old sequences and Maintain", attempts)
	})
}
