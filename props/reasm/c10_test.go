package reasm

import (
	"fmt"
	"math"
	"testing"
	"time"

	"pgregory.net/rapid"

	"verif/internal/hx"
)

// C10 — after any PushMessage at most maxInFlight events are buffered and the
// oldest buffered event is not complete; outside Close an event is delivered
// only if it is complete or the buffer held more than maxInFlight events (the
// timeout is far in the future, so the third cause is excluded).

var hC10 = hx.New("C10", "rapid-generated single-goroutine histories with timeout far in the future (1h, 290 years or the largest Duration: time-out cause excluded), maxInFlight 0..8, windowed sequences that over-fill the buffer, EOE for head and non-head events, Maintain interleaved; oracle: buffered set reconstructed from pushes and observed deliveries, checked after every call; second stage: the histories of C19 with finite timeouts (300us..5ms) and real sleeps, where a delivery without another cause must not happen while the timeout has definitely not elapsed. Non-trivial = history with an overflow eviction of an incomplete event, or a complete event that had to wait behind an incomplete older one, or (timed stage) an idle period longer than the timeout right before a push; distinct by hash of the history")

var c10Cfg = genCfg{
	windowed: true,
	timeouts: []time.Duration{time.Hour, time.Hour, time.Duration(math.MaxInt64), 290 * 365 * 24 * time.Hour},
	maxMax:   8, maxOps: 70, raw: true, nilPush: true, endClose: true, gapBias: true,
	midClose: true, // "outside Close" includes the calls made after a Close: the Reassembler goes on accepting pushes
}

func propC10(h History) error {
	tr := exec(h)
	if !tr.Created {
		return fmt.Errorf("NewReassembler failed: %v", tr.NewErr)
	}
	bk := newBook(h)
	overflow, waited, nested := false, false, false
	maxBuf := 0
	for i, o := range h.Ops {
		st := &tr.Steps[i]
		if isPush(o) && st.Err == nil {
			bk.notePush(i, o, st)
		}
		for _, cb := range st.CBs {
			if cb.NestedPush {
				bk.notePush(cb.PushID, Op{K: opPush, Seq: cb.PushSeq, Typ: cb.PushTyp}, st)
				nested = true
				continue
			}
			if !cb.IsEv || len(cb.Seqs) == 0 {
				continue
			}
			seq := cb.Seqs[0]
			e := bk.pending[seq]
			if e == nil {
				continue // C01's business
			}
			if o.K != opClose {
				switch {
				case e.complete:
				case len(bk.pending) > h.MaxInFlight:
					overflow = true
				default:
					return fmt.Errorf("op %d (%s): event seq %d delivered without cause: it is not complete, %d events are buffered (maxInFlight %d) and the timeout is far in the future", i, o.K, seq, len(bk.pending), h.MaxInFlight)
				}
			}
			delete(bk.pending, seq)
		}
		maxBuf = max(maxBuf, len(bk.pending))
		if o.K == opPush || o.K == opPushRaw || o.K == opNil || o.K == opPushBad {
			if len(bk.pending) > h.MaxInFlight {
				return fmt.Errorf("op %d (%s): %d events remain buffered after the push, maxInFlight is %d", i, o.K, len(bk.pending), h.MaxInFlight)
			}
			ord := bk.ordered()
			if len(ord) > 0 && ord[0].complete {
				return fmt.Errorf("op %d (%s): the oldest buffered event (seq %d) is complete but was not delivered", i, o.K, ord[0].seq)
			}
			for _, e := range ord[min(1, len(ord)):] {
				if e.complete {
					waited = true
				}
			}
		}
	}
	switch {
	case maxBuf > 256:
		hC10.Class("history-with-more-than-256-buffered")
	case maxBuf > 64:
		hC10.Class("history-with-more-than-64-buffered")
	case maxBuf > 16:
		hC10.Class("history-with-more-than-16-buffered")
	}
	if overflow {
		hC10.Class("history-with-overflow-eviction")
	}
	if waited {
		hC10.Class("history-with-complete-event-waiting")
	}
	if nested {
		hC10.Class("history-with-push-from-callback")
	}
	if overflow || waited {
		hC10.NonTrivial(fpHistory(h), h.Describe)
	}
	return nil
}

// propC10Timed: the same clauses under finite timeouts and real idle periods. Whether a timeout has elapsed is
// decided from the harness clock read around every call; only "definitely not elapsed" is asserted (the call in
// which the event is delivered ended less than the timeout after the call that created it began).
func propC10Timed(h History) error {
	tr := exec(h)
	if !tr.Created {
		return fmt.Errorf("NewReassembler failed: %v", tr.NewErr)
	}
	T := time.Duration(h.TimeoutNs)
	bk := newBook(h)
	early, timed := false, false
	for i, o := range h.Ops {
		st := &tr.Steps[i]
		if isPush(o) && st.Err == nil {
			bk.notePush(i, o, st)
		}
		for _, cb := range st.CBs {
			if !cb.IsEv || len(cb.Seqs) == 0 {
				continue
			}
			seq := cb.Seqs[0]
			e := bk.pending[seq]
			if e == nil {
				continue
			}
			switch {
			case o.K == opClose: // the property speaks about deliveries outside Close
			case e.complete:
			case len(bk.pending) > h.MaxInFlight:
			case T > 0 && !st.T1.After(e.createdT0.Add(T)):
				return fmt.Errorf("op %d (%s): event seq %d delivered without cause: it is not complete, %d events are buffered (maxInFlight %d) and its timeout of %v had not elapsed (created in op %d; this call ended %v after the creating call began)", i, o.K, seq, len(bk.pending), h.MaxInFlight, T, e.firstOp, st.T1.Sub(e.createdT0))
			default:
				timed = true
			}
			if e.firstOp == i && !e.complete {
				early = true // delivered by the very call that created it (over-full buffer or non-positive timeout)
			}
			delete(bk.pending, seq)
		}
		if isPush(o) {
			if len(bk.pending) > h.MaxInFlight {
				return fmt.Errorf("op %d (%s): %d events remain buffered after the push, maxInFlight is %d", i, o.K, len(bk.pending), h.MaxInFlight)
			}
			if ord := bk.ordered(); len(ord) > 0 && ord[0].complete {
				return fmt.Errorf("op %d (%s): the oldest buffered event (seq %d) is complete but was not delivered", i, o.K, ord[0].seq)
			}
		}
	}
	if timed {
		hC10.Class("timed-history-with-delivery-after-possible-expiry")
	}
	if early {
		hC10.Class("timed-history-with-delivery-in-creating-call")
	}
	idle := false
	for i, o := range h.Ops {
		if o.K == opSleep && int64(o.SleepUs)*1000 > h.TimeoutNs && i+1 < len(h.Ops) && h.Ops[i+1].K == opPush {
			idle = true
		}
	}
	if idle {
		hC10.Class("timed-history-with-idle-period-before-push")
		hC10.NonTrivial(fpHistory(h), h.Describe)
	}
	return nil
}

func TestC10TimedRegress(t *testing.T) { hx.Regress(t, hC10, "TestC10Timed", propC10Timed) }

// TestC10Timed draws the histories of C19 (finite timeouts, real sleeps shorter and longer than the timeout).
func TestC10Timed(t *testing.T) {
	hx.Check(t, hC10, "TestC10Timed", func(rt *rapidT) History {
		h := genC19(rt)
		if h.TimeoutNs <= 0 || h.TimeoutNs >= int64(time.Second) {
			h.TimeoutNs = int64(rapid.SampledFrom([]time.Duration{300 * time.Microsecond, time.Millisecond, 5 * time.Millisecond}).Draw(rt, "finite"))
		}
		return h
	}, propC10Timed)
}

// TestC10Large: buffers far larger than anything the random histories fill. For each maxInFlight n just above
// a power of two: n+3 events that never complete are pushed in ascending order and (second history) in an
// order that keeps inserting below the newest, then Close. The clauses are the ones of TestC10 (nothing is
// delivered without cause before the buffer holds more than n events; afterwards exactly the surplus goes).
func TestC10Large(t *testing.T) {
	sizes := []int{1025, 2049}
	if hx.Thorough() {
		sizes = append(sizes, 4097, 8193)
	}
	for _, n := range sizes {
		for variant := 0; variant < 2; variant++ {
			h := History{MaxInFlight: n, TimeoutNs: int64(time.Hour), Windowed: true, Base: 1 << 20}
			for i := 0; i < n+3; i++ {
				off := uint32(i)
				if variant == 1 && i%2 == 1 {
					off = uint32(n + 3 + (n + 3 - i)) // odd pushes come from above, descending: they land in the middle of the list
				}
				h.Ops = append(h.Ops, Op{K: opPush, Seq: h.Base + off, Typ: 1300})
			}
			h.Ops = append(h.Ops, Op{K: opMaintain}, Op{K: opClose})
			hC10.Eval()
			if err := hx.Guard(propC10, h); err != nil {
				hC10.Fail(t, "TestC10", h, "maxInFlight %d, %d pushes of lone SYSCALL records (variant %d), Maintain, Close: %v", n, n+3, variant, err)
			}
			hC10.Class("large-buffer-history")
		}
	}
}

// TestC10HeldBack: see heldBackHistories.
func TestC10HeldBack(t *testing.T) {
	runHeldBack(t, hC10, "TestC10", propC10)
	runLongEvents(t, hC10, "TestC10", propC10)
}

func TestC10Regress(t *testing.T) { hx.Regress(t, hC10, "TestC10", propC10) }

func TestC10(t *testing.T) {
	hx.Check(t, hC10, "TestC10", func(rt *rapidT) History {
		h := genHistory(rt, c10Cfg)
		// one history in three: the Stream pushes a record of a new event from inside every top-level
		// ReassemblyComplete (a push like any other: when the call of the history returns, the buffer is within its
		// limit and its oldest event is not complete). Only where the new sequences stay inside the ordering window.
		var hi uint32
		for _, o := range h.Ops {
			if isPush(o) && h.off(o.Seq) > hi {
				hi = h.off(o.Seq)
			}
		}
		if rapid.SampledFrom([]string{"", "pushfresh", ""}).Draw(rt, "reenter") != "" && hi+4000 < 1<<24-1 {
			h.Reenter = "pushfresh"
		}
		return h
	}, propC10)
}
