package reasm

import (
	"fmt"
	"math"
	"testing"
	"time"

	"verif/internal/hx"
)

// C10 — after any PushMessage at most maxInFlight events are buffered and the
// oldest buffered event is not complete; outside Close an event is delivered
// only if it is complete or the buffer held more than maxInFlight events (the
// timeout is far in the future, so the third cause is excluded).

var hC10 = hx.New("C10", "rapid-generated single-goroutine histories with timeout far in the future (1h, 290 years or the largest Duration: time-out cause excluded), maxInFlight 0..8, windowed sequences that over-fill the buffer, EOE for head and non-head events, Maintain interleaved; oracle: buffered set reconstructed from pushes and observed deliveries, checked after every call. Non-trivial = history with an overflow eviction of an incomplete event, or a complete event that had to wait behind an incomplete older one; distinct by hash of the history")

var c10Cfg = genCfg{
	windowed: true,
	timeouts: []time.Duration{time.Hour, time.Hour, time.Duration(math.MaxInt64), 290 * 365 * 24 * time.Hour},
	maxMax:   8, maxOps: 70, raw: true, nilPush: true, endClose: true, gapBias: true,
}

func propC10(h History) error {
	tr := exec(h)
	if !tr.Created {
		return fmt.Errorf("NewReassembler failed: %v", tr.NewErr)
	}
	bk := newBook(h)
	overflow, waited := false, false
	for i, o := range h.Ops {
		st := &tr.Steps[i]
		if isPush(o) && st.Err == nil {
			bk.notePush(i, o, st)
		}
		for _, cb := range st.CBs {
			if !cb.IsEv || len(cb.Seqs) == 0 {
				continue
			}
			seq := cb.Seqs[0]
			e := bk.pending[seq]
			if e == nil {
				continue // C01's business
			}
			if o.K != opClose {
				switch {
				case e.complete:
				case len(bk.pending) > h.MaxInFlight:
					overflow = true
				default:
					return fmt.Errorf("op %d (%s): event seq %d delivered without cause: it is not complete, %d events are buffered (maxInFlight %d) and the timeout is far in the future", i, o.K, seq, len(bk.pending), h.MaxInFlight)
				}
			}
			delete(bk.pending, seq)
		}
		if o.K == opPush || o.K == opPushRaw || o.K == opNil || o.K == opPushBad {
			if len(bk.pending) > h.MaxInFlight {
				return fmt.Errorf("op %d (%s): %d events remain buffered after the push, maxInFlight is %d", i, o.K, len(bk.pending), h.MaxInFlight)
			}
			ord := bk.ordered()
			if len(ord) > 0 && ord[0].complete {
				return fmt.Errorf("op %d (%s): the oldest buffered event (seq %d) is complete but was not delivered", i, o.K, ord[0].seq)
			}
			for _, e := range ord[min(1, len(ord)):] {
				if e.complete {
					waited = true
				}
			}
		}
	}
	if overflow {
		hC10.Class("history-with-overflow-eviction")
	}
	if waited {
		hC10.Class("history-with-complete-event-waiting")
	}
	if overflow || waited {
		hC10.NonTrivial(fpHistory(h), h.Describe)
	}
	return nil
}

func TestC10Regress(t *testing.T) { hx.Regress(t, hC10, "TestC10", propC10) }

func TestC10(t *testing.T) {
	hx.Check(t, hC10, "TestC10", func(rt *rapidT) History { return genHistory(rt, c10Cfg) }, propC10)
}
