package reasm

import (
	"fmt"
	"math"
	"testing"
	"time"

	libaudit "github.com/elastic/go-libaudit/v2"
	"github.com/elastic/go-libaudit/v2/auparse"
	"pgregory.net/rapid"

	"verif/internal/hx"
)

// C02 — single goroutine: events are delivered in ascending (roll-over aware)
// sequence order; an event may follow a higher-numbered one only if its first
// record was pushed after that event had been delivered.

var hC02 = hx.New("C02", "rapid-generated single-goroutine histories with sequences inside one 2^24 window (widths 4, 12, 40 and 2^24-1; bases at 0, 2^24, 2^31 and across the 2^32-1 -> 0 seam), maxInFlight 0..6, all timeouts; oracle: the property statement evaluated on every pair of deliveries of the trace (delivery op, window offset, op of the event's first record). Non-trivial = history in which two events were buffered at the same time with push order != sequence order, or whose deliveries straddle the seam, or that has a late arrival; distinct by hash of the history")

var c02Cfg = genCfg{
	windowed: true,
	timeouts: []time.Duration{-time.Second, 0, 200 * time.Microsecond, time.Hour, time.Hour, time.Hour, time.Duration(math.MaxInt64), time.Duration(math.MinInt64)},
	maxMax:   6, maxOps: 60, sleeps: []int{400}, raw: true, nilPush: true, endClose: true, gapBias: true, midClose: true,
}

type delivery struct {
	op, firstOp int // in ticks
	call        int // index of the call of the history in progress
	off         uint32
	seq         uint32
}

func propC02(h History) error {
	tr := exec(h)
	if !tr.Created {
		return fmt.Errorf("NewReassembler failed: %v", tr.NewErr)
	}
	bk := newBook(h)
	var ds []delivery
	firstOf := map[uint32]int{} // sequence -> op of the first record of its most recent incarnation
	inversion, seam, late, nestedDone := false, false, false, false
	// "before" and "after" are counted in ticks: one per call of the history and one per callback or push made from
	// inside a callback, so that a record the Stream pushes from a callback has its place between the deliveries
	tick := 0
	for i, o := range h.Ops {
		st := &tr.Steps[i]
		tick++
		if isPush(o) && st.Err == nil {
			_, existed := bk.pending[o.Seq]
			bk.notePush(i, o, st)
			if !existed && o.Typ != eoe {
				bk.pending[o.Seq].firstOp = tick
			}
			if !existed && o.Typ != eoe {
				for s := range bk.pending {
					if h.off(s) > h.off(o.Seq) {
						inversion = true
					}
				}
			}
		}
		for _, cb := range st.CBs {
			tick++
			if cb.NestedPush {
				_, existed := bk.pending[cb.PushSeq]
				bk.notePush(cb.PushID, Op{K: opPush, Seq: cb.PushSeq, Typ: cb.PushTyp}, st)
				if !existed {
					bk.pending[cb.PushSeq].firstOp = tick
				}
				nestedDone = true
				continue
			}
			if !cb.IsEv || len(cb.Seqs) == 0 {
				continue
			}
			seq := cb.Seqs[0]
			first := tick
			if e := bk.pending[seq]; e != nil {
				first = e.firstOp
				firstOf[seq] = first
			} else if f, again := firstOf[seq]; again {
				// nothing was pushed for this sequence since it was delivered last: these are the records of then
				first = f
			}
			d := delivery{op: tick, call: i, firstOp: first, off: h.off(seq), seq: seq}
			for _, p := range ds {
				if p.off > d.off {
					// p has the higher sequence and was delivered before d
					if !(d.firstOp > p.op) {
						return fmt.Errorf("op %d: event seq %d (offset %d, first record pushed at tick %d) delivered at tick %d, after event seq %d (offset %d, delivered in op %d at tick %d) although it was already buffered then (ticks count calls, callbacks and pushes made from callbacks)", i, d.seq, d.off, d.firstOp, d.op, p.seq, p.off, p.call, p.op)
					}
					late = true
				}
				if p.seq > d.seq && p.off < d.off {
					seam = true
				}
			}
			ds = append(ds, d)
			delete(bk.pending, seq)
		}
	}
	if inversion {
		hC02.Class("history-with-out-of-order-buffering")
	}
	if seam {
		hC02.Class("history-straddling-seam")
	}
	if late {
		hC02.Class("history-with-late-arrival")
	}
	if nestedDone {
		hC02.Class("history-with-push-from-eventslost")
	}
	if inversion || seam || late {
		hC02.NonTrivial(fpHistory(h), h.Describe)
	}
	return nil
}

func TestC02Regress(t *testing.T) { hx.Regress(t, hC02, "TestC02", propC02) }

func TestC02(t *testing.T) {
	hx.Check(t, hC02, "TestC02", func(rt *rapidT) History {
		h := genHistory(rt, c02Cfg)
		// one history in three: the Stream goes on pushing from inside EventsLost
		h.Reenter = rapid.SampledFrom([]string{"", "lostpushdone", ""}).Draw(rt, "reenter")
		return h
	}, propC02)
}

// TestC02Large: see heldBackHistories.
func TestC02Large(t *testing.T) {
	runHeldBack(t, hC02, "TestC02", propC02)
	runSeam(t, hC02, "TestC02", propC02)
}

// TestC02Distance: the distance at which the order turns. Two events that never complete are buffered at the same
// time (first seen in either order), then Close hands them over: sequence numbers that differ by at most 2^24-1
// go in numeric order, and "sequence numbers that differ by more than 2^24-1 are ordered as a uint32 roll-over" —
// the numerically larger one is the older one. Every distance around 2^24-1 and around the other powers of two,
// from many starting points. (Two events only: with three the relation need not be transitive.)
func TestC02Distance(t *testing.T) {
	const lim = 1<<24 - 1
	var dists []uint32
	for _, c := range []uint64{1, 2, 1 << 8, 1 << 16, 1 << 23, lim, 1 << 25, 1 << 31, 1<<32 - lim, 1<<32 - 1} {
		for d := int64(-3); d <= 3; d++ {
			if v := int64(c) + d; v >= 1 && v <= 1<<32-1 {
				dists = append(dists, uint32(v))
			}
		}
	}
	n := 0
	for _, lo := range []uint32{0, 1, 5, 1 << 16, 1<<24 - 2, 1 << 24, 1 << 31, 1<<32 - 1<<25} {
		for _, d := range dists {
			hi := lo + d
			if hi < lo {
				continue // the pair is (lo, lo+d) with lo+d not wrapped: the numeric distance is d
			}
			for order := 0; order < 2; order++ {
				for _, mif := range []int{5, 1} {
					a, b := lo, hi
					if order == 1 {
						a, b = hi, lo
					}
					r := &recorder{byPtr: map[*auparse.AuditMessage]int{}}
					r.cur = &Step{}
					ra, err := libaudit.NewReassembler(mif, time.Hour, r)
					if err != nil {
						t.Fatalf("harness: %v", err)
					}
					ra.PushMessage(&auparse.AuditMessage{RecordType: 1300, Sequence: a, RawData: "a"})
					ra.PushMessage(&auparse.AuditMessage{RecordType: 1300, Sequence: b, RawData: "b"})
					_ = ra.Close()
					var got []uint32
					for _, cb := range r.cur.CBs {
						if cb.IsEv && len(cb.Seqs) > 0 {
							got = append(got, cb.Seqs[0])
						}
					}
					want := []uint32{lo, hi}
					if d > lim {
						want = []uint32{hi, lo}
					}
					hC02.Eval()
					n++
					if len(got) != 2 || got[0] != want[0] || got[1] != want[1] {
						h := History{MaxInFlight: mif, TimeoutNs: int64(time.Hour), Windowed: true, Base: want[0], Ops: []Op{{K: opPush, Seq: a, Typ: 1300}, {K: opPush, Seq: b, Typ: 1300}, {K: opClose}}}
						hC02.Fail(t, "TestC02", h, "events %d and %d (distance %d, 2^24-1 = %d) pushed in that order, both buffered, then Close: delivered in the order %v, want %v", a, b, d, lim, got, want)
						return
					}
				}
			}
		}
	}
	hC02.ClassN("distance-sweep-pair", n)
}
