package reasm

import (
	"fmt"
	"math"
	"testing"
	"time"

	"pgregory.net/rapid"

	"verif/internal/hx"
)

// C03 — EventsLost reports exactly the sequence numbers skipped between
// consecutively delivered in-order events, in the call that delivers the event
// after the gap; late/duplicate events add nothing; every report is positive.

var hC03 = hx.New("C03", "rapid-generated single-goroutine histories (config + 1..60 ops: PushMessage/Push/Maintain/sleep/Close) with sequences inside one 2^24 window (bases incl. 0, 2^24, 2^31 and 2^32 seams; dense pools, gaps, late arrivals, restarts); oracle: reference loss model from the property text evaluated per API call on the observed callbacks. Non-trivial = history with expected loss > 0, or a late/duplicate delivery, or deliveries crossing the 2^32-1 -> 0 seam; distinct by hash of the whole history")

var c03Cfg = genCfg{
	windowed: true,
	timeouts: []time.Duration{-time.Second, 0, 200 * time.Microsecond, time.Hour, time.Hour, time.Hour, time.Duration(math.MaxInt64), time.Duration(math.MinInt64)},
	maxMax:   6, maxOps: 60, sleeps: []int{400}, raw: true, nilPush: true, endClose: true, gapBias: true, midClose: true,
}

func propC03(h History) error {
	tr := exec(h)
	if !tr.Created {
		return fmt.Errorf("NewReassembler failed: %v", tr.NewErr)
	}
	bk := newBook(h)
	var hi uint32
	hiSet := false
	lossy, late, seam, nested := false, false, false, false
	for i, o := range h.Ops {
		st := &tr.Steps[i]
		if isPush(o) && st.Err == nil {
			bk.notePush(i, o, st)
		}
		var expected, got uint64
		for _, cb := range st.CBs {
			if cb.NestedPush {
				// a push the Stream made from inside a callback: a push like any other, and what it leads to is
				// part of the call of the history that is in progress
				bk.notePush(cb.PushID, Op{K: opPush, Seq: cb.PushSeq, Typ: cb.PushTyp}, st)
				nested = true
				continue
			}
			if cb.IsEv {
				if len(cb.Seqs) == 0 {
					return fmt.Errorf("op %d: empty ReassemblyComplete", i)
				}
				seq := cb.Seqs[0]
				off := h.off(seq)
				switch {
				case !hiSet:
					hiSet, hi = true, off
				case off > hi:
					// a sequence number that is counted as skipped is one the Stream has not been and is not about to be
					// given: an event that sits in the buffer at this moment is neither
					for s := range bk.pending {
						if so := h.off(s); so > hi && so < off {
							return fmt.Errorf("op %d (%s): event seq %d is delivered and the sequence numbers after %d are counted as lost, among them %d, whose event is in the buffer at this moment (first record pushed in op %d)", i, o.K, seq, h.Base+hi, s, bk.pending[s].firstOp)
						}
					}
					expected += uint64(off - hi - 1)
					if h.Base+hi > h.Base+off { // numeric wrap between the two
						seam = true
					}
					hi = off
				default:
					late = true // late or duplicate: adds nothing, does not move the reference
				}
				delete(bk.pending, seq)
				continue
			}
			if cb.Lost <= 0 {
				return fmt.Errorf("op %d (%s): EventsLost(%d) is not positive", i, o.K, cb.Lost)
			}
			got += uint64(cb.Lost)
		}
		if got != expected {
			return fmt.Errorf("op %d (%s seq=%d): EventsLost reports in this call sum to %d, the delivered events skipped %d sequence numbers", i, o.K, o.Seq, got, expected)
		}
		if expected > 0 {
			lossy = true
		}
	}
	if lossy {
		hC03.Class("history-with-loss")
	}
	if late {
		hC03.Class("history-with-late-or-duplicate-delivery")
	}
	if seam {
		hC03.Class("history-crossing-seam")
	}
	if nested {
		hC03.Class("history-with-push-from-callback")
	}
	if lossy || late || seam {
		hC03.NonTrivial(fpHistory(h), h.Describe)
	}
	return nil
}

func TestC03Regress(t *testing.T) { hx.Regress(t, hC03, "TestC03", propC03) }

func TestC03(t *testing.T) {
	hx.Check(t, hC03, "TestC03", func(rt *rapidT) History {
		h := genHistory(rt, c03Cfg)
		// one history in three: the Stream pushes from inside EventsLost a record that completes a later event at once (the gap
		// between the events around it is counted like any other; by then the events of the call that reported the gap have
		// all been handed over). Only where the new sequence numbers stay inside
		// the ordering window.
		var hi uint32
		for _, o := range h.Ops {
			if isPush(o) && h.off(o.Seq) > hi {
				hi = h.off(o.Seq)
			}
		}
		if re := rapid.SampledFrom([]string{"", "lostpushdone", ""}).Draw(rt, "reenter"); hi+4000 < 1<<24-1 {
			h.Reenter = re
		}
		return h
	}, propC03)
}

// TestC03Large: see heldBackHistories.
func TestC03Large(t *testing.T) {
	runHeldBack(t, hC03, "TestC03", propC03)
	runLongEvents(t, hC03, "TestC03", propC03)
	runSeam(t, hC03, "TestC03", propC03)
}
