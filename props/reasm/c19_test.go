package reasm

import (
	"fmt"
	"math"
	"sync"
	"testing"
	"time"

	libaudit "github.com/elastic/go-libaudit/v2"
	"pgregory.net/rapid"

	"verif/internal/hx"
)

// C19 — an event that never completes is delivered by the first Maintain or
// PushMessage after its timeout has elapsed, as soon as it is the oldest
// buffered event, and never on account of time before that. Close delivers
// everything once, in order, with loss accounting; afterwards Maintain and Close
// fail and deliver nothing; no Reassembler without a Stream.
//
// Time is real. The oracle is three-valued: from the harness clock read around
// every call it derives for each buffered event whether it is definitely
// expired, definitely live or undetermined at a later call; only the two
// definite answers are asserted, so scheduling delay can make the check say
// less but never something wrong.

var hC19 = hx.New("C19", "rapid-generated histories mixing pushes of (mostly) never-completing events, real sleeps shorter and longer than the timeout, Maintain, Close, calls after Close; timeout in {-1s, the most negative Duration, 0, 300us, 1ms, 1h, 290 years, the largest Duration}, maxInFlight 0..6, windowed sequences; oracle: interval (three-valued) expiry oracle from harness clock brackets + Close/after-Close/constructor rules. Non-trivial = history with a delivery whose only cause is a definitely elapsed timeout, or with a call made after Close; distinct by hash of the history")

// "effectively infinite" includes the idiomatic "never": the largest Duration, and other values whose
// sum with the current time does not fit into 64 bits of nanoseconds
var c19Timeouts = []time.Duration{-time.Second, 0, 300 * time.Microsecond, time.Millisecond, time.Millisecond, time.Hour,
	time.Duration(math.MaxInt64), time.Duration(math.MaxInt64) - time.Hour, 290 * 365 * 24 * time.Hour, time.Duration(math.MinInt64)}

func genC19(t *rapid.T) History {
	h := History{Windowed: true}
	h.MaxInFlight = rapid.IntRange(0, 6).Draw(t, "maxInFlight")
	h.TimeoutNs = int64(rapid.SampledFrom(c19Timeouts).Draw(t, "timeout"))
	h.Base = rapid.SampledFrom(baseChoices).Draw(t, "base")
	n := rapid.IntRange(1, 30).Draw(t, "nops")
	sleeps := 0
	closed := false
	next := uint32(0)
	var used []uint32
	for i := 0; i < n; i++ {
		k := rapid.IntRange(0, 99).Draw(t, "opkind")
		switch {
		case closed:
			switch {
			case k < 35:
				h.Ops = append(h.Ops, Op{K: opMaintain})
			case k < 70:
				h.Ops = append(h.Ops, Op{K: opClose})
			case k < 78 && sleeps < 6 && h.TimeoutNs > 0 && h.TimeoutNs < int64(time.Second):
				h.Ops = append(h.Ops, Op{K: opSleep, SleepUs: int(h.TimeoutNs/1000) + 400})
				sleeps++
			default:
				// a push after Close: the Reassembler goes on accepting records (a receive loop that is still running),
				// and what it accepts it owes the Stream under the same rules as before; a later Maintain or Close must
				// still fail and deliver nothing. Half of these records belong to an event that was buffered when Close
				// flushed it (the straggler of a flushed event starts a new event).
				off := uint32(0)
				if len(used) > 0 && rapid.Bool().Draw(t, "straggler") {
					off = used[len(used)-1-rapid.IntRange(0, min(3, len(used)-1)).Draw(t, "recentafterclose")]
				} else {
					next++
					off = next
				}
				h.Ops = append(h.Ops, Op{K: opPush, Seq: h.Base + off, Typ: rapid.SampledFrom([]uint16{1300, 1302, 1327, eoe}).Draw(t, "typafterclose")})
			}
		case k < 22:
			h.Ops = append(h.Ops, Op{K: opMaintain})
		case k < 40 && sleeps < 6 && h.TimeoutNs > 0 && h.TimeoutNs < int64(time.Second):
			us := int(h.TimeoutNs/1000) + 400
			if rapid.IntRange(0, 3).Draw(t, "short") == 0 {
				us = int(h.TimeoutNs / 4000)
			}
			h.Ops = append(h.Ops, Op{K: opSleep, SleepUs: us})
			sleeps++
		case k < 45:
			h.Ops = append(h.Ops, Op{K: opClose})
			closed = true
		default:
			var off uint32
			switch rapid.IntRange(0, 6).Draw(t, "seqkind") {
			case 0:
				off = rapid.Uint32Range(0, 12).Draw(t, "off")
			case 2, 3:
				// one more record for an event pushed before (most likely still buffered): a record that arrives
				// late must not make its event any younger
				if len(used) > 0 {
					off = used[len(used)-1-rapid.IntRange(0, min(3, len(used)-1)).Draw(t, "recent")]
				} else {
					next++
					off = next
				}
			case 1:
				next += rapid.Uint32Range(1, 3).Draw(t, "gap")
				off = next
			default:
				next++
				off = next
			}
			typ := genTyp(t, []uint16{1300, 1309, 1302, 1307, 1300, 1400, 1306, 1302, eoe, 1327, 1100, 1309})
			h.Ops = append(h.Ops, Op{K: opPush, Seq: h.Base + off, Typ: typ})
			used = append(used, off)
		}
	}
	if !closed && rapid.Bool().Draw(t, "endclose") {
		h.Ops = append(h.Ops, Op{K: opClose})
		if rapid.Bool().Draw(t, "after") {
			h.Ops = append(h.Ops, Op{K: opMaintain}, Op{K: opClose})
		}
	}
	return h
}

func propC19(h History) error {
	// constructor rule
	if r, err := libaudit.NewReassembler(h.MaxInFlight, time.Duration(h.TimeoutNs), nil); err == nil || r != nil {
		return fmt.Errorf("NewReassembler with a nil Stream returned (%v, %v); want no Reassembler and an error", r, err)
	}
	tr := exec(h)
	if !tr.Created {
		return fmt.Errorf("NewReassembler failed: %v", tr.NewErr)
	}
	T := time.Duration(h.TimeoutNs)
	bk := newBook(h)
	closedAt := -1
	var hi uint32
	hiSet := false
	timeoutOnly, postClose := false, false
	pushedAfterClose := false
	var nDef, nLive, nUndet int
	for i, o := range h.Ops {
		st := &tr.Steps[i]
		if isPush(o) {
			bk.notePush(i, o, st)
		}
		var seqs []uint32
		var lostSum uint64
		for _, cb := range st.CBs {
			if cb.IsEv {
				if len(cb.Seqs) == 0 {
					return fmt.Errorf("op %d: empty ReassemblyComplete", i)
				}
				seqs = append(seqs, cb.Seqs[0])
			} else {
				lostSum += uint64(cb.Lost)
			}
		}
		// loss model (as C03), needed for the Close rule
		var expLost uint64
		for _, s := range seqs {
			off := h.off(s)
			switch {
			case !hiSet:
				hiSet, hi = true, off
			case off > hi:
				expLost += uint64(off - hi - 1)
				hi = off
			}
		}
		if closedAt >= 0 {
			postClose = true
			if o.K == opPush {
				pushedAfterClose = true
			}
			if o.K == opMaintain || o.K == opClose {
				if st.Err == nil {
					return fmt.Errorf("op %d: %s after Close (op %d) returned nil", i, o.K, closedAt)
				}
				if len(st.CBs) != 0 {
					return fmt.Errorf("op %d: %s after Close triggered %d callbacks", i, o.K, len(st.CBs))
				}
			}
			if o.K != opPush {
				continue
			}
			// a push after Close is a push: the events it creates are delivered for the same causes as any other
		}
		switch o.K {
		case opClose:
			closedAt = i
			if st.Err != nil {
				return fmt.Errorf("op %d: first Close returned %v", i, st.Err)
			}
			ord := bk.ordered()
			if len(seqs) != len(ord) {
				return fmt.Errorf("op %d: Close delivered %d events %v, %d were buffered", i, len(seqs), seqs, len(ord))
			}
			for k, e := range ord {
				if seqs[k] != e.seq {
					return fmt.Errorf("op %d: Close delivered events in order %v, window order of the buffered events starts differently at position %d (want seq %d)", i, seqs, k, e.seq)
				}
				delete(bk.pending, e.seq)
			}
			if lostSum != expLost {
				return fmt.Errorf("op %d: Close reported %d lost events, the flushed events skipped %d sequence numbers", i, lostSum, expLost)
			}
		case opMaintain, opPush:
			if o.K == opMaintain && st.Err != nil {
				return fmt.Errorf("op %d: Maintain before Close returned %v", i, st.Err)
			}
			k := 0 // next observed delivery
			for _, e := range bk.ordered() {
				cause := e.complete || len(bk.pending) > h.MaxInFlight
				defExpired := st.T0.After(e.createdT1.Add(T))
				defLive := !st.T1.After(e.createdT0.Add(T))
				switch {
				case defExpired:
					nDef++
				case defLive:
					nLive++
				default:
					nUndet++
				}
				observed := k < len(seqs) && seqs[k] == e.seq
				if cause || defExpired {
					if !observed {
						why := "its timeout had definitely elapsed"
						if cause {
							why = "it was complete or the buffer was over-full"
						}
						return fmt.Errorf("op %d (%s): the oldest buffered event seq %d was not delivered in this call although %s (created in op %d, timeout %v, call began %v after the creating call returned); delivered: %v", i, o.K, e.seq, why, e.firstOp, T, st.T0.Sub(e.createdT1), seqs)
					}
					if !cause {
						timeoutOnly = true
					}
				} else if defLive {
					if observed {
						return fmt.Errorf("op %d (%s): event seq %d delivered on account of time although its timeout (%v) had definitely not elapsed (call ended %v after the creating call began) and it is neither complete nor is the buffer over-full", i, o.K, e.seq, T, st.T1.Sub(e.createdT0))
					}
					break
				} else if !observed {
					break // undetermined and not delivered: nothing behind it may go either
				}
				k++
				delete(bk.pending, e.seq)
				continue
			}
			if k < len(seqs) {
				// deliveries that the walk could not account for
				return fmt.Errorf("op %d (%s): events %v delivered, but only the first %d are explained by completeness, overflow or an elapsed timeout of the oldest buffered event", i, o.K, seqs, k)
			}
		}
	}
	hC19.ClassN("decision-definitely-expired", nDef)
	hC19.ClassN("decision-definitely-live", nLive)
	hC19.ClassN("decision-undetermined", nUndet)
	if timeoutOnly {
		hC19.Class("history-with-timeout-only-delivery")
	}
	if postClose {
		hC19.Class("history-with-call-after-close")
	}
	if pushedAfterClose {
		hC19.Class("history-with-push-after-close")
	}
	if timeoutOnly || postClose {
		hC19.NonTrivial(fpHistory(h), h.Describe)
	}
	return nil
}

// TestC19Large: hundreds of stale events at once. n lone SYSCALL records are buffered (maxInFlight far above
// n), the harness sleeps well past the timeout, and one Maintain (or one push of a further record) has to
// deliver every one of them; then Close. The oracle is propC19's (only definite answers are asserted).
func TestC19Large(t *testing.T) {
	sizes := []int{129, 300}
	if hx.Thorough() {
		sizes = append(sizes, 1000, 3000)
	}
	for _, n := range sizes {
		for variant := 0; variant < 2; variant++ {
			h := History{MaxInFlight: 4 * n, TimeoutNs: int64(2 * time.Millisecond), Windowed: true, Base: 1 << 16}
			for i := 0; i < n; i++ {
				h.Ops = append(h.Ops, Op{K: opPush, Seq: h.Base + uint32(i), Typ: 1300})
			}
			h.Ops = append(h.Ops, Op{K: opSleep, SleepUs: 6000})
			if variant == 0 {
				h.Ops = append(h.Ops, Op{K: opMaintain})
			} else {
				h.Ops = append(h.Ops, Op{K: opPush, Seq: h.Base + uint32(n), Typ: 1300})
			}
			h.Ops = append(h.Ops, Op{K: opMaintain}, Op{K: opClose})
			hC19.Eval()
			if err := hx.Guard(propC19, h); err != nil {
				hC19.Fail(t, "TestC19", h, "%d lone SYSCALL records buffered (maxInFlight %d, timeout 2ms), 6ms sleep, then one %s: %v", n, 4*n, []string{"Maintain", "push"}[variant], err)
			}
			hC19.Class("large-stale-buffer-history")
		}
	}
}

func TestC19Regress(t *testing.T) { hx.Regress(t, hC19, "TestC19", propC19) }

func TestC19(t *testing.T) { hx.Check(t, hC19, "TestC19", genC19, propC19) }

// ---------------------------------------------------------------------------
// A Stream that closes the Reassembler from inside a callback (a consumer that shuts down on a condition it
// sees in the data). Close delivers every buffered event once, in order — also then: at the end of the call
// during which Close ran, every record pushed so far has been delivered exactly once (by the interrupted call
// or by Close), the events Close itself delivered are in window order, and afterwards Maintain and Close fail
// and deliver nothing.

func genC19StreamCloses(t *rapid.T) History {
	if rapid.IntRange(0, 3).Draw(t, "mixed") == 0 {
		h := genC19(t)
		h.Reenter = "close"
		return h
	}
	// an incomplete head event holds back k complete events; j incomplete younger ones are buffered behind
	// them; then the head is completed (or the buffer overflows, or time runs out): the call that delivers the
	// head and the k complete events is interrupted by Close, which has the j younger ones to flush
	h := History{Windowed: true, Reenter: "close", Base: rapid.SampledFrom(baseChoices).Draw(t, "base")}
	k, j := rapid.IntRange(0, 6).Draw(t, "complete"), rapid.IntRange(0, 6).Draw(t, "incomplete")
	h.MaxInFlight = k + j + 1 + rapid.IntRange(0, 2).Draw(t, "slack")
	h.TimeoutNs = int64(rapid.SampledFrom([]time.Duration{time.Hour, time.Hour, 2 * time.Millisecond}).Draw(t, "timeout"))
	seq := uint32(0)
	push := func(typ uint16) { h.Ops = append(h.Ops, Op{K: opPush, Seq: h.Base + seq, Typ: typ}) }
	push(1300)
	for i := 0; i < k; i++ {
		seq += rapid.Uint32Range(1, 2).Draw(t, "step")
		push(1300)
		push(rapid.SampledFrom([]uint16{eoe, 1327, eoe}).Draw(t, "end"))
	}
	for i := 0; i < j; i++ {
		seq += rapid.Uint32Range(1, 2).Draw(t, "step")
		push(1300)
		if rapid.Bool().Draw(t, "second") {
			push(1307)
		}
	}
	switch rapid.IntRange(0, 3).Draw(t, "trigger") {
	case 0, 1:
		h.Ops = append(h.Ops, Op{K: opPush, Seq: h.Base, Typ: eoe})
	case 2:
		for i := 0; i < 3; i++ { // overflow
			seq++
			push(1300)
		}
	default:
		if h.TimeoutNs < int64(time.Second) {
			h.Ops = append(h.Ops, Op{K: opSleep, SleepUs: 5000}, Op{K: opMaintain})
		} else {
			h.Ops = append(h.Ops, Op{K: opPush, Seq: h.Base, Typ: 1327})
		}
	}
	h.Ops = append(h.Ops, Op{K: opMaintain}, Op{K: opClose})
	return h
}

func propC19StreamCloses(h History) error {
	tr := exec(h)
	if !tr.Created {
		return fmt.Errorf("NewReassembler failed: %v", tr.NewErr)
	}
	delivered := map[int]int{}
	closedAt, nestedCloses := -1, 0
	interruptedLeft, flushed := 0, 0
	for i, o := range h.Ops {
		st := &tr.Steps[i]
		if closedAt >= 0 {
			if o.K == opMaintain || o.K == opClose {
				if st.Err == nil {
					return fmt.Errorf("op %d: %s after the Stream closed the Reassembler (op %d) returned nil", i, o.K, closedAt)
				}
				if len(st.CBs) != 0 {
					return fmt.Errorf("op %d: %s after Close triggered %d callbacks", i, o.K, len(st.CBs))
				}
			}
			continue
		}
		inClose, first := false, o.K != opClose // the history's own Close comes first: Close calls made during its flush fail
		var closeSeqs []uint32
		for _, cb := range st.CBs {
			switch {
			case cb.NestedClose == "begin":
				inClose = true
			case cb.NestedClose == "end":
				inClose = false
				nestedCloses++
				if first && cb.NestedErr != nil {
					return fmt.Errorf("op %d: the first Close (made by the Stream from inside a callback) returned %v", i, cb.NestedErr)
				}
				if !first && cb.NestedErr == nil {
					return fmt.Errorf("op %d: a second Close (made by the Stream from inside a later callback) returned nil", i)
				}
				first = false
				closedAt = i
			case cb.IsEv:
				for k, id := range cb.IDs {
					if id < 0 || id >= len(h.Ops) || !isPush(h.Ops[id]) {
						return fmt.Errorf("op %d: delivered a message that was never pushed (seq %d type %d)", i, cb.Seqs[k], cb.Typs[k])
					}
					delivered[id]++
				}
				if inClose && len(cb.Seqs) > 0 {
					closeSeqs = append(closeSeqs, cb.Seqs[0])
				} else if closedAt == i {
					interruptedLeft++
				}
			}
		}
		if o.K == opClose {
			closedAt = i
			if st.Err != nil {
				return fmt.Errorf("op %d: first Close returned %v", i, st.Err)
			}
		}
		if closedAt == i {
			for k := 1; k < len(closeSeqs); k++ {
				if h.off(closeSeqs[k]) <= h.off(closeSeqs[k-1]) {
					return fmt.Errorf("op %d: Close (made by the Stream during this call) delivered events in the order %v", i, closeSeqs)
				}
			}
			flushed = len(closeSeqs)
			for id := 0; id <= i; id++ {
				if !isPush(h.Ops[id]) || h.Ops[id].Typ == eoe {
					continue
				}
				if n := delivered[id]; n != 1 {
					return fmt.Errorf("op %d (%s): Close ran during this call (made by the Stream from inside its first callback); afterwards the record pushed by op %d (seq %d type %d) has been delivered %d times, want exactly once", i, o.K, id, h.Ops[id].Seq, h.Ops[id].Typ, n)
				}
			}
		}
	}
	if nestedCloses > 0 {
		hC19.Class("stream-closes-from-callback")
	}
	if flushed >= 2 && interruptedLeft >= 1 {
		hC19.Class("stream-closes-while-call-has-more-to-deliver-and-2-events-are-buffered")
		hC19.NonTrivial(fpHistory(h), h.Describe)
	}
	return nil
}

func TestC19StreamClosesRegress(t *testing.T) {
	hx.Regress(t, hC19, "TestC19StreamCloses", propC19StreamCloses)
}

func TestC19StreamCloses(t *testing.T) {
	hx.Check(t, hC19, "TestC19StreamCloses", genC19StreamCloses, propC19StreamCloses)
}

// ---------------------------------------------------------------------------
// A call made from inside a callback, after time has passed. The Stream of a slow consumer sleeps in its first
// callback and then calls Maintain (or pushes a record of a fresh sequence): that is "a Maintain or PushMessage
// made after the timeout has elapsed" like any other, and the events that have expired by then — they were not
// expired when the interrupted call looked — are delivered by it. Every event is a lone SYSCALL record, created
// in ascending order, maxInFlight is large: time is the only cause there is.

func genC19Nested(t *rapid.T) History {
	T := rapid.SampledFrom([]time.Duration{4 * time.Millisecond, 6 * time.Millisecond}).Draw(t, "timeout")
	h := History{Windowed: true, MaxInFlight: 64, TimeoutNs: int64(T), Base: rapid.SampledFrom(baseChoices).Draw(t, "base")}
	h.Reenter = rapid.SampledFrom([]string{"sleepmaintain", "sleepmaintain", "sleeppush"}).Draw(t, "nestedcall")
	h.ReenterSleepUs = int(T/time.Microsecond) + 1000
	part := int(T/time.Microsecond) * 6 / 10
	seq := uint32(0)
	// old events; 0.6 T later young events (the old ones are still live: nothing is delivered); 0.6 T later the old
	// ones have expired and the young ones have not: the next call delivers the old ones, and the Stream sleeps in
	// its callback until the young ones have expired, too
	for i, n := 0, rapid.IntRange(1, 3).Draw(t, "old"); i < n; i++ {
		seq++
		h.Ops = append(h.Ops, Op{K: opPush, Seq: h.Base + seq, Typ: 1300})
	}
	h.Ops = append(h.Ops, Op{K: opSleep, SleepUs: part})
	for i, n := 0, rapid.IntRange(1, 4).Draw(t, "young"); i < n; i++ {
		seq++
		h.Ops = append(h.Ops, Op{K: opPush, Seq: h.Base + seq, Typ: 1300})
	}
	h.Ops = append(h.Ops, Op{K: opSleep, SleepUs: part})
	if rapid.IntRange(0, 2).Draw(t, "trigger") > 0 {
		h.Ops = append(h.Ops, Op{K: opMaintain})
	} else {
		seq++
		h.Ops = append(h.Ops, Op{K: opPush, Seq: h.Base + seq, Typ: 1300})
	}
	h.Ops = append(h.Ops, Op{K: opSleep, SleepUs: 100}, Op{K: opMaintain}, Op{K: opClose})
	return h
}

func propC19Nested(h History) error {
	tr := exec(h)
	if !tr.Created {
		return fmt.Errorf("NewReassembler failed: %v", tr.NewErr)
	}
	T := time.Duration(h.TimeoutNs)
	type ev struct {
		seq       uint32
		createdT1 time.Time
		delivered bool
		inStep    bool // created by the call that is being processed
	}
	var evs []*ev // in creation order = window order
	bySeq := map[uint32]*ev{}
	nestedDelivered := 0
	for i, o := range h.Ops {
		st := &tr.Steps[i]
		// deliveries of this step, and the nested calls in it
		type call struct {
			t0        time.Time
			err       error
			delivered map[uint32]bool
		}
		var calls []*call
		var cur *call
		stepDelivered := map[uint32]bool{}
		for _, cb := range st.CBs {
			switch {
			case cb.NestedClose == "begin-call":
				cur = &call{t0: cb.NestedT, delivered: map[uint32]bool{}}
				calls = append(calls, cur)
			case cb.NestedClose == "end-call":
				cur.err = cb.NestedErr
				cur = nil
			case cb.IsEv && len(cb.Seqs) > 0:
				stepDelivered[cb.Seqs[0]] = true
				if cur != nil {
					cur.delivered[cb.Seqs[0]] = true
				}
			}
		}
		if o.K == opPush && bySeq[o.Seq] == nil {
			// the event this very push creates exists before any callback of the call: when the Stream has slept, it is
			// at least that old
			e := &ev{seq: o.Seq, inStep: true}
			bySeq[o.Seq] = e
			evs = append(evs, e)
		}
		for _, c := range calls {
			if o.K == opClose {
				break // Close is under way: a nested Maintain fails, and Close delivers everything anyway
			}
			for _, e := range evs {
				if e.inStep {
					e.createdT1 = c.t0.Add(-time.Duration(h.ReenterSleepUs) * time.Microsecond)
				}
			}
			if c.err != nil {
				return fmt.Errorf("op %d (%s): the call the Stream made from inside a callback returned %v", i, o.K, c.err)
			}
			for _, e := range evs {
				if e.delivered || !c.t0.After(e.createdT1.Add(T)) {
					continue
				}
				// definitely expired when the nested call began; everything older has been created earlier and is
				// expired as well: it goes in this step — taken by the interrupted call before, or delivered by
				// the nested call
				if !stepDelivered[e.seq] {
					return fmt.Errorf("op %d (%s): the Stream slept %v inside a callback and then made a call (%s); event seq %d (created in an earlier call that returned %v before, timeout %v) was the oldest buffered event and expired, and was not delivered", i, o.K, time.Duration(h.ReenterSleepUs)*time.Microsecond, h.Reenter, e.seq, c.t0.Sub(e.createdT1), T)
				}
				if c.delivered[e.seq] {
					nestedDelivered++
				}
			}
		}
		for s := range stepDelivered {
			if e := bySeq[s]; e != nil {
				e.delivered = true
			}
		}
		for _, e := range evs {
			if e.inStep {
				e.inStep, e.createdT1 = false, st.T1
			}
		}
	}
	if nestedDelivered > 0 {
		hC19.Class("nested-call-after-sleep-delivers-expired-events")
		hC19.NonTrivial(fpHistory(h), h.Describe)
	}
	return nil
}

func TestC19NestedRegress(t *testing.T) { hx.Regress(t, hC19, "TestC19Nested", propC19Nested) }

func TestC19Nested(t *testing.T) { hx.Check(t, hC19, "TestC19Nested", genC19Nested, propC19Nested) }

// TestC19LongSleeps: long timeouts and real sleeps of the length of a "grace period" somebody might think of.
// An incomplete event is the oldest buffered one, younger events complete behind it (and are held back by it),
// the harness sleeps 0.7 s and 1.2 s (thorough: also 2.5 s, 5.5 s, 11 s) and calls Maintain and pushes: with a
// timeout of three times the sleep, an hour or "never", nothing is delivered on account of time. The histories
// run side by side (each on its own Reassembler); the oracle is propC19's.
func TestC19LongSleeps(t *testing.T) {
	sleeps := []time.Duration{700 * time.Millisecond, 1200 * time.Millisecond}
	if hx.Thorough() {
		sleeps = append(sleeps, 2500*time.Millisecond, 5500*time.Millisecond, 11*time.Second)
	}
	var hs []History
	for _, s := range sleeps {
		for _, T := range []time.Duration{3 * s, time.Hour, time.Duration(math.MaxInt64)} {
			for variant := 0; variant < 2; variant++ {
				h := History{MaxInFlight: 8, TimeoutNs: int64(T), Windowed: true, Base: 1 << 10}
				h.Ops = append(h.Ops, Op{K: opPush, Seq: h.Base + 1, Typ: 1300})
				if variant == 1 {
					h.Ops = append(h.Ops, Op{K: opPush, Seq: h.Base + 1, Typ: 1302})
				}
				h.Ops = append(h.Ops, Op{K: opPush, Seq: h.Base + 2, Typ: 1300}, Op{K: opPush, Seq: h.Base + 2, Typ: eoe},
					Op{K: opPush, Seq: h.Base + 3, Typ: 1300}, Op{K: opPush, Seq: h.Base + 3, Typ: 1327},
					Op{K: opSleep, SleepUs: int(s / time.Microsecond)}, Op{K: opMaintain},
					Op{K: opPush, Seq: h.Base + 4, Typ: 1300}, Op{K: opMaintain}, Op{K: opClose})
				hs = append(hs, h)
			}
		}
	}
	errs := make([]error, len(hs))
	var wg sync.WaitGroup
	for i := range hs {
		wg.Add(1)
		go func(i int) {
			defer wg.Done()
			errs[i] = hx.Guard(propC19, hs[i])
		}(i)
	}
	wg.Wait()
	for i, err := range errs {
		hC19.Eval()
		if err != nil {
			hC19.Fail(t, "TestC19", hs[i], "incomplete oldest event, complete events behind it, a sleep of %dus, timeout %v: %v", hs[i].Ops[len(hs[i].Ops)-5].SleepUs, time.Duration(hs[i].TimeoutNs), err)
		}
		hC19.Class("history-with-sleep-of-0.7s-or-more-under-a-long-timeout")
	}
}
