package reasm

import (
	"fmt"
	"math"
	"testing"
	"time"

	"pgregory.net/rapid"

	"verif/internal/hx"
)

// C01 — every pushed non-EOE record is delivered in exactly one callback,
// nothing else is delivered, callbacks are single-sequence, in push order, and
// an event is never split while it is buffered.

var hC01 = hx.New("C01", "rapid-generated call histories (config: maxInFlight 0..6 x timeout {-1s,0,200us,1h}; 1..60 ops PushMessage / Push(raw) / Push(malformed) / PushMessage(nil) / Maintain / sleep, then Close) over arbitrary uint32 sequences (pools with duplicates, re-use after eviction, values > 2^24 apart, the 2^32 seam) and windowed sequences; oracle: message identity (pointer for PushMessage, nonce in the raw text for Push) against the list of messages pushed per sequence since its last delivery. Non-trivial = history with an event of >= 2 records and at least one of: eviction of an incomplete event, re-used sequence, Push-parsed record, EOE completion; distinct by hash of the history")

var c01Cfg = genCfg{
	timeouts: []time.Duration{-time.Second, 0, 200 * time.Microsecond, time.Hour, time.Hour, time.Duration(math.MaxInt64), time.Duration(math.MinInt64)},
	maxMax:   6, maxOps: 60, sleeps: []int{400}, raw: true, nilPush: true, endClose: true, gapBias: true,
}

func propC01(h History) error {
	tr := exec(h)
	if !tr.Created {
		return fmt.Errorf("NewReassembler failed: %v", tr.NewErr)
	}
	if tr.HeldChanged != "" {
		return fmt.Errorf("%s", tr.HeldChanged)
	}
	bk := newBook(h)
	delivered := map[int]int{} // message id -> op index of its delivery
	nested := map[int]Op{}     // pushes made by the Stream from inside callbacks
	reentered := false
	duringClose := map[int]bool{}
	seqDeliveries := map[uint32]int{}
	multi, incompleteEvict, reuse, rawDelivered, eoeCompletion := false, false, false, false, false
	for i, o := range h.Ops {
		st := &tr.Steps[i]
		switch o.K {
		case opPushBad:
			if st.Err == nil {
				return fmt.Errorf("op %d: Push accepted the malformed raw data %q", i, badRaw[o.Bad%len(badRaw)])
			}
			if len(st.CBs) != 0 {
				return fmt.Errorf("op %d: a failed Push triggered %d callbacks", i, len(st.CBs))
			}
		case opPushRaw:
			if st.Err != nil && rawPrefix(i) == "" {
				return fmt.Errorf("op %d: Push rejected the well-formed raw data %q: %v (record lost)", i, rawFor(i, o.Seq), st.Err)
			}
		}
		if isPush(o) && st.Err == nil {
			if o.Typ == eoe {
				if e, ok := bk.pending[o.Seq]; ok && !e.complete {
					eoeCompletion = true
				}
			}
			bk.notePush(i, o, st)
		}
		for _, cb := range st.CBs {
			if cb.NestedPush {
				// a push the Stream made from inside a callback: a push like any other
				nested[cb.PushID] = Op{K: opPush, Seq: cb.PushSeq, Typ: cb.PushTyp}
				bk.notePush(cb.PushID, nested[cb.PushID], st)
				reentered = true
				if o.K == opClose {
					duringClose[cb.PushID] = true // pushed after Close was invoked: nobody promises its delivery
				}
				continue
			}
			if !cb.IsEv {
				continue
			}
			if len(cb.IDs) == 0 {
				return fmt.Errorf("op %d: ReassemblyComplete with no messages", i)
			}
			seq := cb.Seqs[0]
			for k, id := range cb.IDs {
				if cb.Seqs[k] != seq {
					return fmt.Errorf("op %d: callback mixes sequences %d and %d", i, seq, cb.Seqs[k])
				}
				pushed, known := nested[id]
				if !known && id >= 0 && id < len(h.Ops) && isPush(h.Ops[id]) {
					pushed, known = h.Ops[id], true
				}
				if !known {
					return fmt.Errorf("op %d: delivered a message that was never pushed (seq %d type %d)", i, cb.Seqs[k], cb.Typs[k])
				}
				if cb.Typs[k] == eoe {
					return fmt.Errorf("op %d: EOE record delivered (seq %d)", i, seq)
				}
				if pushed.Seq != cb.Seqs[k] || pushed.Typ != cb.Typs[k] {
					return fmt.Errorf("op %d: message %d delivered as seq=%d type=%d but was pushed as seq=%d type=%d", i, id, cb.Seqs[k], cb.Typs[k], pushed.Seq, pushed.Typ)
				}
				if at, dup := delivered[id]; dup {
					return fmt.Errorf("op %d: message pushed by op %d delivered twice (first in op %d)", i, id, at)
				}
				delivered[id] = i
				if pushed.K == opPushRaw {
					rawDelivered = true
				}
			}
			e := bk.pending[seq]
			if e == nil {
				return fmt.Errorf("op %d: event for sequence %d delivered but no undelivered record of it was pushed", i, seq)
			}
			if len(e.ids) != len(cb.IDs) {
				return fmt.Errorf("op %d: event seq %d delivered with messages %v, but the records pushed for it since its last delivery are %v (split or lost)", i, seq, cb.IDs, e.ids)
			}
			for k := range e.ids {
				if e.ids[k] != cb.IDs[k] {
					return fmt.Errorf("op %d: event seq %d delivered in order %v, pushed in order %v", i, seq, cb.IDs, e.ids)
				}
			}
			if len(cb.IDs) >= 2 {
				multi = true
			}
			if !e.complete && o.K != opClose {
				incompleteEvict = true
			}
			seqDeliveries[seq]++
			if seqDeliveries[seq] > 1 {
				reuse = true
			}
			delete(bk.pending, seq)
		}
	}
	if n := len(h.Ops); n > 0 && h.Ops[n-1].K == opClose {
		for seq, e := range bk.pending {
			var missing []int
			for _, id := range e.ids {
				if !duringClose[id] {
					missing = append(missing, id)
				}
			}
			if len(missing) > 0 {
				return fmt.Errorf("after Close: records %v of sequence %d were never delivered", missing, seq)
			}
		}
	}
	if incompleteEvict {
		hC01.Class("history-with-eviction-of-incomplete-event")
	}
	if reuse {
		hC01.Class("history-with-reused-sequence")
	}
	if rawDelivered {
		hC01.Class("history-with-Push-parsed-record")
	}
	if eoeCompletion {
		hC01.Class("history-with-EOE-completion")
	}
	if reentered {
		hC01.Class("history-with-reentrant-calls")
	}
	if multi && (incompleteEvict || reuse || rawDelivered || eoeCompletion) {
		hC01.NonTrivial(fpHistory(h), h.Describe)
	}
	return nil
}

func TestC01Regress(t *testing.T) { hx.Regress(t, hC01, "TestC01", propC01) }

func TestC01(t *testing.T) {
	hx.Check(t, hC01, "TestC01", func(rt *rapidT) History {
		c := c01Cfg
		c.windowed = rapidBool(rt, "windowed")
		h := genHistory(rt, c)
		h.Reenter = rapid.SampledFrom([]string{"", "", "", "maintain", "pushfresh", "pusheoe", "pusheoe"}).Draw(rt, "reenter")
		return h
	}, propC01)
}

// TestC01Large: see heldBackHistories.
func TestC01Large(t *testing.T) {
	runHeldBack(t, hC01, "TestC01", propC01)
	runLongEvents(t, hC01, "TestC01", propC01)
	runSeam(t, hC01, "TestC01", propC01)
}
