// Package reasm holds the checks of the Reassembler properties
// C01 C02 C03 C10 C11 C19.
//
// A case is a History: a configuration and a list of operations, a plain value
// that rapid generates and shrinks and that is saved as JSON for replay. exec
// drives the real Reassembler with it and records every callback together with
// the operation in progress. The oracles reconstruct, from the pushes the
// harness made and the callbacks it observed only, which events are buffered.
package reasm

import (
	"fmt"
	"os"
	"sort"
	"strconv"
	"strings"
	"testing"
	"time"

	libaudit "github.com/elastic/go-libaudit/v2"
	"github.com/elastic/go-libaudit/v2/auparse"
	"pgregory.net/rapid"

	"verif/internal/hx"
)

func TestMain(m *testing.M) { hx.Main(m) }

type rapidT = rapid.T

func rapidBool(t *rapid.T, label string) bool { return rapid.Bool().Draw(t, label) }

// Operation kinds.
const (
	opPush     = "push"     // PushMessage(&AuditMessage{RecordType: Typ, Sequence: Seq})
	opPushRaw  = "pushraw"  // Push(Typ, "audit(…:Seq): nonce=<id>")
	opPushBad  = "pushbad"  // Push(Typ, malformed header) — must fail and deliver nothing
	opNil      = "nil"      // PushMessage(nil)
	opMaintain = "maintain" // Maintain()
	opSleep    = "sleep"    // time.Sleep(SleepUs)
	opClose    = "close"    // Close()
)

const eoe = uint16(1320)

type Op struct {
	K       string `json:"k"`
	Seq     uint32 `json:"seq,omitempty"`
	Typ     uint16 `json:"typ,omitempty"`
	Bad     int    `json:"bad,omitempty"`
	SleepUs int    `json:"sleep_us,omitempty"`
}

type History struct {
	MaxInFlight int    `json:"max_in_flight"`
	TimeoutNs   int64  `json:"timeout_ns"`
	Base        uint32 `json:"base"` // window base (only used to order sequences; 0 for unordered histories)
	Windowed    bool   `json:"windowed"`
	Ops         []Op   `json:"ops"`
	// Reenter: what the Stream does from inside every top-level ReassemblyComplete callback (calls made
	// from a callback are calls of the history like any other): "" nothing, "maintain", "pushfresh" (a
	// non-terminating record of a sequence used nowhere else), "pusheoe" (an EOE for the sequences of the
	// history in turn; EOE records are never delivered themselves).
	Reenter string `json:"reenter,omitempty"`
	// ReenterSleepUs: for the re-entry modes "sleepmaintain" and "sleeppush": how long the Stream sleeps inside the
	// callback before it calls Maintain / pushes a record of a fresh sequence (at most twice per history)
	ReenterSleepUs int `json:"reenter_sleep_us,omitempty"`
}

func (h History) Describe() string {
	var b strings.Builder
	fmt.Fprintf(&b, "NewReassembler(maxInFlight=%d, timeout=%v) base=%d windowed=%v stream re-enters with %q\n", h.MaxInFlight, time.Duration(h.TimeoutNs), h.Base, h.Windowed, h.Reenter)
	for i, o := range h.Ops {
		switch o.K {
		case opPush, opPushRaw:
			fmt.Fprintf(&b, " %2d %s seq=%d (off %d) type=%d%s\n", i, o.K, o.Seq, o.Seq-h.Base, o.Typ, typNote(o.Typ))
		case opPushBad:
			fmt.Fprintf(&b, " %2d pushbad variant=%d\n", i, o.Bad)
		case opSleep:
			fmt.Fprintf(&b, " %2d sleep %dus\n", i, o.SleepUs)
		default:
			fmt.Fprintf(&b, " %2d %s\n", i, o.K)
		}
	}
	return b.String()
}

func typNote(t uint16) string {
	switch {
	case t == eoe:
		return " EOE"
	case terminating(t):
		return " terminating"
	}
	return ""
}

// terminating follows the property text: a PROCTITLE record, a record of the
// user-space/daemon range (<= 1299) or of the anomaly range and above (>= 2100)
// ends an event.
func terminating(t uint16) bool { return t == 1327 || t <= 1299 || t >= 2100 }

// after reports whether a comes after b in the window order of the history.
func (h History) off(seq uint32) uint32 { return seq - h.Base }

// ---------------------------------------------------------------------------
// execution trace

type CB struct {
	// NestedPush: not a callback but a PushMessage the Stream made from inside the preceding callback
	NestedPush bool
	PushID     int
	PushSeq    uint32
	PushTyp    uint16

	// NestedClose: not a callback but a marker: the Stream called Close from inside the preceding callback
	// ("begin" before the call, "end" after it, with the result in NestedErr)
	NestedClose string
	NestedErr   error
	NestedT     time.Time // harness clock immediately before a nested call ("begin-call")

	Lost int      // >0: EventsLost(Lost); otherwise a ReassemblyComplete
	IsEv bool     // ReassemblyComplete
	IDs  []int    // message ids (op index of the push) in callback order; -1 = not a pushed message
	Seqs []uint32 // sequence of each delivered message
	Typs []uint16
}

type Step struct {
	CBs    []CB
	Err    error
	T0, T1 time.Time // harness clock immediately before / after the call
}

type Trace struct {
	Steps   []Step
	NewErr  error
	Created bool
	// HeldChanged: a slice handed to ReassemblyComplete that the Stream kept no longer holds, at the end of the
	// history, the messages it held when it was delivered ("" = all kept slices are intact)
	HeldChanged string
}

type heldSlice struct {
	given []*auparse.AuditMessage // the slice exactly as the callback got it
	then  []*auparse.AuditMessage // its elements at that moment
	step  int
}

type recorder struct {
	cur   *Step
	held  []heldSlice
	stepN int
	byPtr map[*auparse.AuditMessage]int
	// re-entrancy
	r       *libaudit.Reassembler
	reenter string
	depth   int
	nested  int
	// nested calls made after a sleep (sleepmaintain, sleeppush)
	nestedCalls  int
	reenterSleep time.Duration
	seqs         []uint32 // sequences of the history (for pusheoe)
	freshLo      uint32
	fresh        uint32
	used         map[uint32]bool
	// freshInWindow: the sequences after the history's highest one are still inside its ordering window
	freshInWindow bool
}

const nestedIDBase = 1 << 20

func (r *recorder) ReassemblyComplete(msgs []*auparse.AuditMessage) {
	r.held = append(r.held, heldSlice{given: msgs, then: append([]*auparse.AuditMessage(nil), msgs...), step: r.stepN})
	cb := CB{IsEv: true}
	for _, m := range msgs {
		id := -1
		if m != nil {
			if v, ok := r.byPtr[m]; ok {
				id = v
			} else if i := strings.Index(m.RawData, "nonce="); i >= 0 {
				if n, err := strconv.Atoi(strings.TrimSpace(m.RawData[i+6:])); err == nil {
					id = n
				}
			}
			cb.Seqs = append(cb.Seqs, m.Sequence)
			cb.Typs = append(cb.Typs, uint16(m.RecordType))
		} else {
			cb.Seqs = append(cb.Seqs, 0)
			cb.Typs = append(cb.Typs, 0)
		}
		cb.IDs = append(cb.IDs, id)
	}
	r.cur.CBs = append(r.cur.CBs, cb)
	if r.reenter == "" || r.depth > 0 || r.r == nil {
		return
	}
	r.depth++
	defer func() { r.depth-- }()
	switch r.reenter {
	case "maintain":
		_ = r.r.Maintain()
	case "sleepmaintain", "sleeppush":
		if r.nestedCalls >= 2 {
			return
		}
		r.nestedCalls++
		time.Sleep(r.reenterSleep)
		r.cur.CBs = append(r.cur.CBs, CB{NestedClose: "begin-call", NestedT: time.Now()})
		var err error
		if r.reenter == "sleepmaintain" {
			err = r.r.Maintain()
		} else {
			id := nestedIDBase + r.nested
			r.nested++
			r.fresh++
			m := &auparse.AuditMessage{RecordType: 1300, Sequence: r.freshLo + r.fresh, RawData: "nested" + strconv.Itoa(id)}
			r.byPtr[m] = id
			r.cur.CBs = append(r.cur.CBs, CB{NestedPush: true, PushID: id, PushSeq: m.Sequence, PushTyp: 1300})
			r.r.PushMessage(m)
		}
		r.cur.CBs = append(r.cur.CBs, CB{NestedClose: "end-call", NestedErr: err})
	case "close":
		r.cur.CBs = append(r.cur.CBs, CB{NestedClose: "begin"})
		err := r.r.Close()
		r.cur.CBs = append(r.cur.CBs, CB{NestedClose: "end", NestedErr: err})
	case "pushfresh", "pusheoe":
		id := nestedIDBase + r.nested
		r.nested++
		r.fresh++
		for r.used[r.freshLo+r.fresh] {
			r.fresh++
		}
		seq, typ := r.freshLo+r.fresh, uint16(1300)
		if r.reenter == "pusheoe" {
			if len(r.seqs) == 0 {
				return
			}
			seq, typ = r.seqs[r.nested%len(r.seqs)], eoe
		}
		m := &auparse.AuditMessage{RecordType: auparse.AuditMessageType(typ), Sequence: seq, RawData: "nested" + strconv.Itoa(id)}
		r.byPtr[m] = id
		r.cur.CBs = append(r.cur.CBs, CB{NestedPush: true, PushID: id, PushSeq: seq, PushTyp: typ})
		r.r.PushMessage(m)
	}
}

func (r *recorder) EventsLost(n int) {
	r.cur.CBs = append(r.cur.CBs, CB{Lost: n})
	// "lostpushdone": from inside EventsLost the Stream pushes a record that completes its event at once, with a
	// sequence after every other one of the history (a reader that notes the gap and goes on reading): by then the
	// events of the call that reported the gap have all been handed over.
	if r.reenter != "lostpushdone" || r.depth > 0 || r.r == nil || r.nested >= 4 || !r.freshInWindow {
		return
	}
	r.depth++
	defer func() { r.depth-- }()
	id := nestedIDBase + r.nested
	r.nested++
	r.fresh++
	m := &auparse.AuditMessage{RecordType: 1100, Sequence: r.freshLo + r.fresh, RawData: "nested" + strconv.Itoa(id)}
	r.byPtr[m] = id
	r.cur.CBs = append(r.cur.CBs, CB{NestedPush: true, PushID: id, PushSeq: m.Sequence, PushTyp: 1100})
	r.r.PushMessage(m)
}

var badRaw = []string{
	"", "audit", "audit(", "audit(123", "audit(123.456", "audit(123.456:", "audit(123.456:7",
	"audit(x.456:7): a=b", "audit(123.y:7): a=b", "audit(123.456:z): a=b", "audit(123.456:4294967296): a=b",
	"audit(123.456:-1): a=b", "audit 123.456:7): a=b", "audit(123 456:7): a=b", "audit(123.456 7): a=b",
}

// rawFor: the text of a raw push. Every seventh one carries something in front of the header (the rest of a log
// line's "msg=", a node prefix, a stray byte): a parser may accept or refuse that, but a Push that reports
// success has taken the record.
func rawFor(id int, seq uint32) string {
	// white space around the record (the newline a line reader leaves, the padding of a datagram): the parser trims
	// it; the bytes are still the caller's, who overwrites them as soon as Push has returned
	lead, trail := "", ""
	switch id % 5 {
	case 2:
		trail = []string{"\n", " ", "\t\n", "\r\n"}[id/5%4]
	case 4:
		lead, trail = []string{" ", "\n", "", "  "}[id/5%4], []string{"", "\n", "\n\n", " "}[id/5%4]
	}
	return lead + rawForText(id, seq) + trail
}

func rawForText(id int, seq uint32) string {
	return rawPrefix(id) + fmt.Sprintf("audit(%d.%03d:%d): nonce=%d", []int64{1700000000, 4102444800, 1700000000, 1}[seq%4], id%1000, seq, id)
}

// stampFor: the time a record says it was written at — the same for all records of a sequence number — is the
// sender's business: unset, an hour ahead of this machine's clock, an hour behind, the year 2200. The Reassembler
// times events by its own clock.
func stampFor(seq uint32) time.Time {
	switch seq % 5 {
	case 1:
		return time.Now().Add(time.Hour).Truncate(time.Hour)
	case 2:
		return time.Now().Add(-time.Hour).Truncate(time.Hour)
	case 3:
		return time.Date(2200, 1, 1, 0, 0, 0, 0, time.UTC)
	}
	return time.Time{}
}

func rawPrefix(id int) string {
	if id%7 == 3 {
		return []string{"msg=", "node=h ", "x", "type=SYSCALL msg="}[id/7%4]
	}
	return ""
}

// exec drives a real Reassembler.
func exec(h History) *Trace {
	rec := &recorder{byPtr: map[*auparse.AuditMessage]int{}}
	tr := &Trace{Steps: make([]Step, len(h.Ops))}
	rec.cur = &Step{}
	r, err := libaudit.NewReassembler(h.MaxInFlight, time.Duration(h.TimeoutNs), rec)
	tr.NewErr = err
	if err != nil || r == nil {
		return tr
	}
	tr.Created = true
	rec.r, rec.reenter = r, h.Reenter
	rec.reenterSleep = time.Duration(h.ReenterSleepUs) * time.Microsecond
	seen := map[uint32]bool{}
	var hi uint32
	for _, o := range h.Ops {
		if isPush(o) && !seen[o.Seq] {
			seen[o.Seq] = true
			rec.seqs = append(rec.seqs, o.Seq)
		}
		if isPush(o) && o.Seq-h.Base > hi {
			hi = o.Seq - h.Base
		}
	}
	// fresh sequences: beyond everything the history uses (inside the window for windowed histories)
	rec.freshLo = h.Base + hi + 1000
	if !h.Windowed {
		rec.freshLo = 0x40000000
	}
	rec.used = seen
	if h.Reenter == "lostpushdone" {
		rec.freshLo = h.Base + hi
		rec.freshInWindow = !h.Windowed || hi+16 < 1<<24-1
	}
	for i, o := range h.Ops {
		st := &tr.Steps[i]
		rec.cur, rec.stepN = st, i
		switch o.K {
		case opPush:
			// every fourth message has the same text as others (records of one event can be byte-identical;
			// they are still separate records)
			raw := "m" + strconv.Itoa(i)
			if i%4 == 1 {
				raw = "same text"
			}
			m := &auparse.AuditMessage{RecordType: auparse.AuditMessageType(o.Typ), Sequence: o.Seq, RawData: raw, Timestamp: stampFor(o.Seq)}
			rec.byPtr[m] = i
			st.T0 = time.Now()
			r.PushMessage(m)
			st.T1 = time.Now()
		case opPushRaw:
			raw := []byte(rawFor(i, o.Seq))
			st.T0 = time.Now()
			st.Err = r.Push(auparse.AuditMessageType(o.Typ), raw)
			st.T1 = time.Now()
			for j := range raw { // Push is documented to copy the raw data
				raw[j] = 'X'
			}
		case opPushBad:
			st.T0 = time.Now()
			st.Err = r.Push(auparse.AuditMessageType(o.Typ), []byte(badRaw[o.Bad%len(badRaw)]))
			st.T1 = time.Now()
		case opNil:
			st.T0 = time.Now()
			r.PushMessage(nil)
			st.T1 = time.Now()
		case opMaintain:
			st.T0 = time.Now()
			st.Err = r.Maintain()
			st.T1 = time.Now()
		case opSleep:
			st.T0 = time.Now()
			time.Sleep(time.Duration(o.SleepUs) * time.Microsecond)
			st.T1 = time.Now()
		case opClose:
			st.T0 = time.Now()
			st.Err = r.Close()
			st.T1 = time.Now()
		}
	}
	// what was handed to the Stream stays what it was (a Stream may keep the slices it is given)
	for _, hs := range rec.held {
		for j := range hs.then {
			if j >= len(hs.given) || hs.given[j] != hs.then[j] {
				seq := uint32(0)
				if hs.then[j] != nil {
					seq = hs.then[j].Sequence
				}
				tr.HeldChanged = fmt.Sprintf("the slice delivered in op %d (event seq %d, %d messages) was rewritten afterwards: element %d is another message now", hs.step, seq, len(hs.then), j)
				return tr
			}
		}
	}
	return tr
}

// ---------------------------------------------------------------------------
// bookkeeping reconstructed from pushes and observed callbacks

type pev struct {
	seq       uint32
	ids       []int // ids of the messages pushed for this sequence since its last delivery
	complete  bool
	firstOp   int       // op index of the first record
	createdT0 time.Time // harness clock bracket of the creating call
	createdT1 time.Time
}

type book struct {
	h       History
	pending map[uint32]*pev
}

func newBook(h History) *book { return &book{h: h, pending: map[uint32]*pev{}} }

// notePush records a push made by the harness (before its callbacks are read).
func (b *book) notePush(i int, o Op, st *Step) {
	if o.Typ == eoe {
		if e, ok := b.pending[o.Seq]; ok {
			e.complete = true
		}
		return
	}
	e, ok := b.pending[o.Seq]
	if !ok {
		e = &pev{seq: o.Seq, firstOp: i, createdT0: st.T0, createdT1: st.T1}
		b.pending[o.Seq] = e
	}
	e.ids = append(e.ids, i)
	if terminating(o.Typ) {
		e.complete = true
	}
}

// ordered returns the buffered events in window order (oldest first).
func (b *book) ordered() []*pev {
	out := make([]*pev, 0, len(b.pending))
	for _, e := range b.pending {
		out = append(out, e)
	}
	sort.Slice(out, func(i, j int) bool { return b.h.off(out[i].seq) < b.h.off(out[j].seq) })
	return out
}

func isPush(o Op) bool { return o.K == opPush || o.K == opPushRaw }

// ---------------------------------------------------------------------------
// generators

var baseChoices = []uint32{0, 0, 1, 5, 1000, 1<<24 - 8, 1<<24 + 3, 1<<31 - 8, 1<<32 - 16, 1<<32 - 3, 1<<32 - 1, 1<<32 - 1<<23, 1<<32 - (1<<24 - 1) + 2}
var widthChoices = []uint32{4, 12, 40, 1<<24 - 1}

var typChoices = []uint16{1300, 1300, 1302, 1307, 1309, 1400, 1326, 2099, 1301,
	eoe, eoe, 1327, 1100, 1299, 2100, 1000, 0, 65535, 1305}

// genTyp: mostly the types that matter to the completion rule and its boundaries, but every fifth record has any
// type of the range whose records do not complete an event (1300..2099) or any type at all.
func genTyp(t *rapid.T, choices []uint16) uint16 {
	switch rapid.IntRange(0, 9).Draw(t, "typkind") {
	case 8:
		return rapid.OneOf(rapid.Uint16Range(1300, 2099), rapid.SampledFrom([]uint16{1400, 1500, 1699, 1700, 1701, 1799, 1800, 1999, 2000, 2098})).Draw(t, "typmid")
	case 9:
		return rapid.Uint16().Draw(t, "typany")
	}
	return rapid.SampledFrom(choices).Draw(t, "typ")
}

// big histories: mostly records that do not complete their event, so that the buffer fills
var typChoicesBig = []uint16{1300, 1300, 1300, 1302, 1302, 1307, 1309, 1400, 1326, 1301, 1300, 1302, 1303, 1306, 1300, 1302, eoe, 1327, 1100, 1305}

type genCfg struct {
	windowed bool
	timeouts []time.Duration
	maxMax   int
	maxOps   int
	sleeps   []int // microseconds; empty = no sleep ops
	raw      bool  // include Push(type, raw) and malformed pushes
	nilPush  bool
	midClose bool // allow Close (and calls after it) in the middle
	endClose bool // always end with Close
	gapBias  bool
}

func genHistory(t *rapid.T, c genCfg) History {
	h := History{Windowed: c.windowed}
	h.MaxInFlight = rapid.IntRange(0, c.maxMax).Draw(t, "maxInFlight")
	h.TimeoutNs = int64(rapid.SampledFrom(c.timeouts).Draw(t, "timeout"))
	var pool []uint32
	var width uint32
	// now and then a big history: dozens of events in flight, buffer sizes around powers of two
	big := rapid.IntRange(0, 14).Draw(t, "big") == 0
	poolMin, poolMax, minOps, maxOps := 2, 8, 1, c.maxOps
	typs := typChoices
	if big {
		b := rapid.SampledFrom([]int{140, 300, 70, 20, 600}).Draw(t, "bigsize")
		poolMin, poolMax, minOps, maxOps = b, 2*b, 3*b, 5*b
		if rapid.Bool().Draw(t, "maxInFlightBySize") {
			h.MaxInFlight = rapid.SampledFrom([]int{2 * b, b + 1, b, b - 1, 4 * b, b / 2}).Draw(t, "maxInFlightSized")
		}
		typs = typChoicesBig
		h.MaxInFlight = rapid.SampledFrom([]int{0, 3, 15, 16, 17, 31, 32, 33, 63, 64, 65, 100, 127, 128, 129, 255, 256, 1000}).Draw(t, "maxInFlightBig")
	}
	if c.windowed {
		h.Base = rapid.SampledFrom(baseChoices).Draw(t, "base")
		width = rapid.SampledFrom(widthChoices).Draw(t, "width")
		if big {
			width = rapid.SampledFrom([]uint32{1<<24 - 1, 5000, 300}).Draw(t, "widthBig")
		}
		k := rapid.IntRange(poolMin, poolMax).Draw(t, "pool")
		for i := 0; i < k; i++ {
			var off uint32
			offkind := rapid.IntRange(0, 3).Draw(t, "offkind")
			if big && i >= 8 {
				offkind = 3 // spread out: many distinct events
			}
			switch offkind {
			case 0:
				off = rapid.Uint32Range(0, 7).Draw(t, "off") % (width + 1)
			case 1:
				off = width - rapid.Uint32Range(0, 3).Draw(t, "off")%(width+1)
			default:
				off = rapid.Uint32Range(0, width).Draw(t, "off")
			}
			pool = append(pool, h.Base+off)
		}
	} else {
		k := rapid.IntRange(poolMin, poolMax).Draw(t, "pool")
		for i := 0; i < k; i++ {
			var s uint32
			switch rapid.IntRange(0, 3).Draw(t, "seqkind") {
			case 0:
				s = rapid.Uint32Range(0, 6).Draw(t, "s")
			case 1:
				s = ^uint32(0) - rapid.Uint32Range(0, 6).Draw(t, "s")
			case 2:
				s = rapid.SampledFrom([]uint32{1 << 24, 1<<24 - 1, 1<<24 + 1, 1 << 25, 1 << 31, 1<<31 - 1, 3 << 30}).Draw(t, "s") + rapid.Uint32Range(0, 3).Draw(t, "d")
			default:
				s = rapid.Uint32().Draw(t, "s")
			}
			pool = append(pool, s)
		}
	}
	n := rapid.IntRange(minOps, maxOps).Draw(t, "nops")
	closed := false
	cursor := 0
	for i := 0; i < n; i++ {
		k := rapid.IntRange(0, 99).Draw(t, "opkind")
		if big {
			k = 99 - k // rapid favours small numbers: in a big history that shall mean "push"
		}
		switch {
		case k < 6:
			h.Ops = append(h.Ops, Op{K: opMaintain})
		case k < 9 && c.nilPush:
			h.Ops = append(h.Ops, Op{K: opNil})
		case k < 14 && len(c.sleeps) > 0 && h.TimeoutNs > 0 && h.TimeoutNs < int64(time.Second):
			h.Ops = append(h.Ops, Op{K: opSleep, SleepUs: rapid.SampledFrom(c.sleeps).Draw(t, "sleep")})
		case k < 17 && c.raw:
			h.Ops = append(h.Ops, Op{K: opPushBad, Typ: rapid.SampledFrom(typChoices).Draw(t, "typ"), Bad: rapid.IntRange(0, len(badRaw)-1).Draw(t, "bad")})
		case k < 19 && c.midClose:
			h.Ops = append(h.Ops, Op{K: opClose})
			closed = true
		default:
			var seq uint32
			if big && rapid.IntRange(0, 3).Draw(t, "stream") != 3 {
				// big histories mostly walk through the pool the way a live stream does: ever new events,
				// locally out of order (sampling alone revisits the same few members again and again)
				seq = pool[(cursor+rapid.IntRange(0, 12).Draw(t, "ahead"))%len(pool)]
				if rapid.IntRange(0, 3).Draw(t, "advance") != 3 {
					cursor++
				}
			} else if c.windowed {
				if rapid.IntRange(0, 9).Draw(t, "fresh") == 0 {
					seq = h.Base + rapid.Uint32Range(0, width).Draw(t, "off")
				} else {
					seq = rapid.SampledFrom(pool).Draw(t, "seq")
					if c.gapBias && rapid.IntRange(0, 4).Draw(t, "adj") == 0 {
						// neighbours of pool members: dense runs with small gaps
						d := rapid.Uint32Range(0, 3).Draw(t, "d")
						if o := seq - h.Base + d; o <= width {
							seq += d
						}
					}
				}
			} else {
				if rapid.IntRange(0, 9).Draw(t, "fresh") == 0 {
					seq = rapid.Uint32().Draw(t, "seq")
				} else {
					seq = rapid.SampledFrom(pool).Draw(t, "seq")
				}
			}
			kind := opPush
			if c.raw && rapid.IntRange(0, 3).Draw(t, "rawpush") == 0 {
				kind = opPushRaw
			}
			h.Ops = append(h.Ops, Op{K: kind, Seq: seq, Typ: genTyp(t, typs)})
		}
	}
	_ = closed
	if c.endClose {
		h.Ops = append(h.Ops, Op{K: opClose})
	}
	return h
}

func fpHistory(h History) uint64 {
	var b strings.Builder
	fmt.Fprintf(&b, "%d/%d/%d|", h.MaxInFlight, h.TimeoutNs, h.Base)
	for _, o := range h.Ops {
		fmt.Fprintf(&b, "%s,%d,%d,%d,%d;", o.K, o.Seq, o.Typ, o.Bad, o.SleepUs)
	}
	return hx.FP(b.String())
}

func init() {
	// make sure a stale rapid fail file can never be replayed
	_ = os.RemoveAll("testdata/rapid")
}

// heldBackHistories: many events become deliverable in ONE call, with gaps between them. An incomplete head
// event holds back n complete events (maxInFlight is larger than n, the timeout an hour); its EOE then lets one
// PushMessage deliver all of them; afterwards sequences from inside the gaps arrive late, then Maintain and
// Close. Variants: a gap in front of every event / of every 7th event / of the last two / around the 64th and
// 128th position. (The same with the head expired by a short timeout is C19's large stage.)
func heldBackHistories() (hs []History, what []string) {
	sizes := []int{63, 64, 65, 66, 129, 300}
	if hx.Thorough() {
		sizes = append(sizes, 127, 128, 255, 256, 257, 1025, 3000)
	}
	for _, n := range sizes {
		for variant := 0; variant < 4; variant++ {
			h := History{MaxInFlight: n + 10, TimeoutNs: int64(time.Hour), Windowed: true, Base: 1 << 22}
			h.Ops = append(h.Ops, Op{K: opPush, Seq: h.Base, Typ: 1300})
			seq := h.Base
			var gaps []uint32 // one sequence number out of every gap
			for i := 1; i <= n; i++ {
				gap := false
				switch variant {
				case 0:
					gap = true
				case 1:
					gap = i%7 == 0
				case 2:
					gap = i == n-1 || i == n
				case 3:
					gap = i == 64 || i == 65 || i == 128 || i == 129
				}
				seq++
				if gap {
					gaps = append(gaps, seq)
					seq += uint32(1 + i%3)
				}
				h.Ops = append(h.Ops, Op{K: opPush, Seq: seq, Typ: 1300}, Op{K: opPush, Seq: seq, Typ: 1307}, Op{K: opPush, Seq: seq, Typ: eoe})
			}
			h.Ops = append(h.Ops, Op{K: opPush, Seq: h.Base, Typ: eoe}) // everything becomes deliverable at once
			for i := len(gaps) - 1; i >= 0 && i >= len(gaps)-4; i-- {
				h.Ops = append(h.Ops, Op{K: opPush, Seq: gaps[i], Typ: 1300}) // late arrivals out of the reported gaps
			}
			h.Ops = append(h.Ops, Op{K: opMaintain}, Op{K: opPush, Seq: seq + 5, Typ: 1300}, Op{K: opPush, Seq: seq + 5, Typ: eoe}, Op{K: opClose})
			hs = append(hs, h)
			what = append(what, fmt.Sprintf("an incomplete head event in front of %d complete events (gap pattern %d), its EOE, late arrivals, Maintain, Close", n, variant))
		}
	}
	return hs, what
}

func runHeldBack(t *testing.T, h *hx.H, test string, prop func(History) error) {
	hs, what := heldBackHistories()
	for i := range hs {
		h.Eval()
		if err := hx.Guard(prop, hs[i]); err != nil {
			h.Fail(t, test, hs[i], "%s: %v", what[i], err)
		}
		h.Class("many-events-delivered-by-one-call")
	}
}

// longEventHistories: one event of n records. A SYSCALL record and n-1 records that end nothing (PATH, EXECVE,
// CWD) of one sequence arrive, interleaved with the records of a second, younger event, then the EOE. The buffer
// is far from full and the timeout an hour: nothing may be delivered before the EOE, and then everything in one
// piece. n around every power of two from 16 to 1024 (thorough: 4096, 65536).
func longEventHistories() (hs []History, what []string) {
	var sizes []int
	for _, p := range []int{16, 32, 64, 128, 256, 512, 1024} {
		sizes = append(sizes, p-1, p, p+1)
	}
	if hx.Thorough() {
		sizes = append(sizes, 4095, 4096, 4097, 65535, 65536, 65537)
	}
	for _, n := range sizes {
		h := History{MaxInFlight: 8, TimeoutNs: int64(time.Hour), Windowed: true, Base: 1 << 20}
		h.Ops = append(h.Ops, Op{K: opPush, Seq: h.Base + 1, Typ: 1300})
		for i := 1; i < n; i++ {
			h.Ops = append(h.Ops, Op{K: opPush, Seq: h.Base + 1, Typ: []uint16{1302, 1309, 1307}[i%3]})
			if i%100 == 50 {
				h.Ops = append(h.Ops, Op{K: opPush, Seq: h.Base + 2, Typ: 1302}, Op{K: opMaintain})
			}
		}
		h.Ops = append(h.Ops, Op{K: opMaintain}, Op{K: opPush, Seq: h.Base + 1, Typ: eoe}, Op{K: opPush, Seq: h.Base + 2, Typ: eoe}, Op{K: opClose})
		hs = append(hs, h)
		what = append(what, fmt.Sprintf("one event of %d records (no terminating record before its EOE; maxInFlight 8, timeout 1h) next to a second event", n))
	}
	return hs, what
}

func runLongEvents(t *testing.T, h *hx.H, test string, prop func(History) error) {
	hs, what := longEventHistories()
	for i := range hs {
		h.Eval()
		if err := hx.Guard(prop, hs[i]); err != nil {
			h.Fail(t, test, hs[i], "%s: %v", what[i], err)
		}
		h.Class("event-of-many-records")
	}
}

// seamHistories: five events whose sequence numbers straddle the 2^32 -> 0 roll-over (every position of the seam
// among them), first seen in every one of the 120 orders, with maxInFlight 5 (nothing leaves before its EOE) and
// 2 (overflow evicts). Then the EOEs in window order, Maintain, Close.
func seamHistories() (hs []History, what []string) {
	var perms [][]int
	var rec func(p []int, used int)
	rec = func(p []int, used int) {
		if len(p) == 5 {
			perms = append(perms, append([]int(nil), p...))
			return
		}
		for i := 0; i < 5; i++ {
			if used&(1<<i) == 0 {
				rec(append(p, i), used|1<<i)
			}
		}
	}
	rec(nil, 0)
	for _, back := range []uint32{1, 2, 3, 4} {
		for _, mif := range []int{5, 2} {
			for _, p := range perms {
				h := History{MaxInFlight: mif, TimeoutNs: int64(time.Hour), Windowed: true, Base: -back - 6}
				// an event delivered in order well before the seam, so that "in order" has a reference
				h.Ops = append(h.Ops, Op{K: opPush, Seq: h.Base, Typ: 1300}, Op{K: opPush, Seq: h.Base, Typ: eoe})
				// ... and the same with the end of every event arriving right after the first record of the next one
				h2 := History{MaxInFlight: mif, TimeoutNs: h.TimeoutNs, Windowed: true, Base: h.Base, Ops: append([]Op(nil), h.Ops...)}
				for k, i := range p {
					h.Ops = append(h.Ops, Op{K: opPush, Seq: h.Base + 6 + uint32(i), Typ: 1300})
					h2.Ops = append(h2.Ops, Op{K: opPush, Seq: h.Base + 6 + uint32(i), Typ: 1300})
					if k > 0 {
						h2.Ops = append(h2.Ops, Op{K: opPush, Seq: h.Base + 6 + uint32(p[k-1]), Typ: eoe})
					}
				}
				for i := 0; i < 5; i++ {
					h.Ops = append(h.Ops, Op{K: opPush, Seq: h.Base + 6 + uint32(i), Typ: eoe})
				}
				h.Ops = append(h.Ops, Op{K: opMaintain}, Op{K: opClose})
				h2.Ops = append(h2.Ops, Op{K: opPush, Seq: h.Base + 6 + uint32(p[4]), Typ: eoe}, Op{K: opMaintain}, Op{K: opClose})
				hs = append(hs, h, h2)
				w := fmt.Sprintf("five events around the roll-over (the first %d before it), first seen in the order %v, maxInFlight %d", back, p, mif)
				what = append(what, w, w+", each completed right after the next one was first seen")
			}
		}
	}
	return hs, what
}

func runSeam(t *testing.T, h *hx.H, test string, prop func(History) error) {
	hs, what := seamHistories()
	for i := range hs {
		h.Eval()
		if err := hx.Guard(prop, hs[i]); err != nil {
			h.Fail(t, test, hs[i], "%s: %v", what[i], err)
		}
	}
	h.Class("roll-over-in-every-arrival-order")
}
