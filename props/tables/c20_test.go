// Package tables holds the exhaustive check of the table property C20.
package tables

import (
	"fmt"
	"os"
	"os/exec"
	"path/filepath"
	"reflect"
	"regexp"
	"sort"
	"strings"
	"sync"
	"testing"

	"github.com/elastic/go-libaudit/v2/aucoalesce"
	"github.com/elastic/go-libaudit/v2/auparse"
	"github.com/elastic/go-libaudit/v2/rule"
	"github.com/elastic/go-libaudit/v2/rule/flags"

	"verif/internal/hx"
	"verif/internal/rulegen"
	"verif/internal/uapi"
)

func TestMain(m *testing.M) { hx.Main(m) }

// C20 — name/number tables are mutually inverse and internally consistent.
// Everything here is an enumeration: no randomness.

var hC20 = hx.New("C20", "exhaustive enumeration, no randomness: all 65536 record type codes (String/GetAuditMessageType and MarshalText/UnmarshalText, categorisation twice), every name of the name->type table (read from the generated source), every entry of the errno tables both ways, every arch code/name (also through rule.Build), every (arch, number, name) of every syscall table, every rule field / operator / comparison name through Build -> ToCommandLine -> Build, every entry of normalizations.yaml loaded through the exported loader. Oracle: inverse/consistency relations stated by the property; agreement with the kernel headers is reported as information only. Every table entry is one case; distinct by table and key")

type C20Case struct {
	Table string `json:"table"`
	Key   string `json:"key"`
}

func (c C20Case) Describe() string { return c.Table + ": " + c.Key }

type checker struct {
	t *testing.T
	n int
}

func (c *checker) entry(table, key string) {
	hC20.SetExhaustive()
	hC20.Eval()
	hC20.Class("table-" + table)
	hC20.NonTrivial(hx.FP(table, key), func() string { return table + ": " + key })
	c.n++
}

func (c *checker) fail(table, key, format string, a ...any) {
	hC20.Fail(c.t, "TestC20", C20Case{table, key}, table+" entry "+key+": "+format, a...)
}

func TestC20RecordTypes(t *testing.T) {
	c := &checker{t: t}
	for i := 0; i < 65536; i++ {
		typ := auparse.AuditMessageType(i)
		key := fmt.Sprint(i)
		c.entry("record-type", key)
		name := typ.String()
		back, err := auparse.GetAuditMessageType(name)
		if err != nil || back != typ {
			c.fail("record-type", key, "String() = %q, which converts back to %d (err %v)", name, back, err)
		}
		txt, err := typ.MarshalText()
		if err != nil {
			c.fail("record-type", key, "MarshalText: %v", err)
		}
		var un auparse.AuditMessageType
		if err := un.UnmarshalText(txt); err != nil || un != typ {
			c.fail("record-type", key, "MarshalText = %q, which unmarshals to %d (err %v)", txt, un, err)
		}
		// the bytes belong to the caller (encoding.TextMarshaler hands out a fresh slice): what is done to them
		// must not change what the type marshals to afterwards
		first := string(txt)
		for j := range txt {
			txt[j] = '#'
		}
		if again, err := typ.MarshalText(); err != nil || string(again) != first {
			c.fail("record-type", key, "MarshalText gave %q, and after the caller overwrote those bytes it gives %q (err %v)", first, again, err)
		}
		if a, b := aucoalesce.GetAuditEventType(typ), aucoalesce.GetAuditEventType(typ); a != b || a.String() != b.String() {
			c.fail("record-type", key, "categorised as %v and then as %v", a, b)
		}
	}
	// every name of the name -> type table
	src, err := os.ReadFile("/repo/auparse/zaudit_msg_types.go")
	if err != nil {
		t.Fatalf("cannot read the generated table: %v", err)
	}
	text := string(src)
	i := strings.Index(text, "var auditMessageNameToType = map[string]AuditMessageType{")
	if i < 0 {
		t.Fatalf("name->type table not found in the generated source")
	}
	body := text[i:]
	body = body[:strings.Index(body, "\n}")]
	names := regexp.MustCompile(`(?m)^\s*"([^"]+)":`).FindAllStringSubmatch(body, -1)
	if len(names) < 100 {
		t.Fatalf("only %d names found in the name->type table", len(names))
	}
	for _, m := range names {
		name := m[1]
		c.entry("record-type-name", name)
		typ, err := auparse.GetAuditMessageType(name)
		if err != nil {
			c.fail("record-type-name", name, "does not resolve: %v", err)
		}
		canon := typ.String()
		again, err := auparse.GetAuditMessageType(canon)
		if err != nil || again != typ {
			c.fail("record-type-name", name, "resolves to %d, whose name %q resolves to %d (err %v)", typ, canon, again, err)
		}
		if low, err := auparse.GetAuditMessageType(strings.ToLower(name)); err != nil || low != typ {
			c.fail("record-type-name", name, "lower-case spelling resolves to %d (err %v), want %d", low, err, typ)
		}
	}
	hC20.Extra("record_type_names", len(names))
}

func TestC20Errno(t *testing.T) {
	c := &checker{t: t}
	for num, name := range auparse.AuditErrnoToName {
		key := fmt.Sprint(num)
		c.entry("errno-number", key)
		back, ok := auparse.AuditErrnoToNum[name]
		if !ok || back != num {
			c.fail("errno-number", key, "name %q maps back to %d (found %v)", name, back, ok)
		}
	}
	for name, num := range auparse.AuditErrnoToNum {
		c.entry("errno-name", name)
		canon, ok := auparse.AuditErrnoToName[num]
		if !ok {
			c.fail("errno-name", name, "resolves to %d, which has no canonical name", num)
		}
		if again := auparse.AuditErrnoToNum[canon]; again != num {
			c.fail("errno-name", name, "resolves to %d, whose canonical name %q resolves to %d", num, canon, again)
		}
		if canon != name {
			// an alias: "aliases resolve to the same number" needs to know which name it is an alias of; that is
			// errno.h knowledge, taken from the kernel header snapshot for the alias names it defines
			if k, ok := uapi.S.Errno[name]; ok && k != num {
				c.fail("errno-name", name, "is an alias (canonical name of %d is %q) and resolves to %d; errno.h defines it as %d (%v)", num, canon, num, k, errnoCanon(k))
			}
			hC20.Class("errno-alias")
		}
	}
	// the tables as the library's own consumers use them: the parser shows exit=-N by name, and that name maps
	// back to N (and is what the rule encoder understands); numbers without a name stay numbers
	for num := 1; num <= 4200; num++ {
		key := fmt.Sprint(num)
		m, err := auparse.Parse(auparse.AUDIT_SYSCALL, fmt.Sprintf("audit(1.000:9): arch=c000003e syscall=2 success=no exit=-%d a0=0 a1=0 a2=0 a3=0 items=0 ppid=1 pid=2 auid=0 uid=0 gid=0 euid=0 suid=0 fsuid=0 egid=0 sgid=0 fsgid=0 tty=(none) ses=1 comm=\"c\" exe=\"/c\" key=(null)", num))
		if err != nil {
			t.Fatalf("parse: %v", err)
		}
		d, err := m.Data()
		if err != nil {
			c.fail("errno-displayed", key, "a SYSCALL record with exit=-%d cannot be decoded: %v", num, err)
			continue
		}
		c.entry("errno-displayed", key)
		shown := d["exit"]
		if name, named := auparse.AuditErrnoToName[num]; named {
			if back, ok := auparse.AuditErrnoToNum[shown]; !ok || back != num {
				c.fail("errno-displayed", key, "the parser shows exit=-%d as %q, which maps back to %d (found %v); the table's name is %q", num, shown, back, ok, name)
			}
		} else if shown != "-"+key {
			c.fail("errno-displayed", key, "the parser shows exit=-%d as %q although the number has no name in the table", num, shown)
		}
	}
	// information only: agreement with the kernel headers
	diff := []string{}
	for name, num := range auparse.AuditErrnoToNum {
		if k, ok := uapi.S.Errno[name]; ok && k != num {
			diff = append(diff, fmt.Sprintf("%s: library %d, kernel %d", name, num, k))
		}
	}
	sort.Strings(diff)
	hC20.Extra("info_errno_differences_from_kernel_headers", strings.Join(diff, "; "))
}

func TestC20Arch(t *testing.T) {
	c := &checker{t: t}
	byName := map[string]auparse.AuditArch{}
	for code, name := range auparse.AuditArchNames {
		key := fmt.Sprintf("%#x", uint32(code))
		c.entry("arch", key)
		if other, dup := byName[name]; dup {
			c.fail("arch", key, "name %q is also the name of arch %#x", name, uint32(other))
		}
		byName[name] = code
		if code.String() != name {
			c.fail("arch", key, "String() = %q, the table says %q", code.String(), name)
		}
		// name -> code, observed through the rule encoder
		r, err := flags.Parse("-a always,exit -F arch=" + name)
		if err != nil {
			c.fail("arch", key, "rule with arch=%s does not parse: %v", name, err)
		}
		wf, err := rule.Build(r)
		if err != nil {
			c.fail("arch", key, "name %q does not resolve in a rule: %v", name, err)
		}
		w, err := rulegen.Decode(wf)
		if err != nil || w.FieldCount != 1 || w.Values[0] != uint32(code) {
			c.fail("arch", key, "name %q resolves to %#x in a rule", name, w.Values[0])
		}
	}
	info := []string{}
	for name, code := range byName {
		if k, ok := rulegen.ArchNames[name]; ok && k != uint32(code) {
			info = append(info, fmt.Sprintf("%s: library %#x, kernel %#x", name, uint32(code), k))
		}
	}
	sort.Strings(info)
	hC20.Extra("info_arch_differences_from_kernel_headers", strings.Join(info, "; "))
}

func TestC20Syscalls(t *testing.T) {
	c := &checker{t: t}
	archNames := map[string]bool{}
	for _, n := range auparse.AuditArchNames {
		archNames[n] = true
	}
	info := []string{}
	for arch, tab := range auparse.AuditSyscalls {
		if !archNames[arch] {
			c.fail("syscall", arch, "syscall table for %q, which is not an architecture name", arch)
		}
		byName := map[string]int{}
		for num, name := range tab {
			key := fmt.Sprintf("%s/%d", arch, num)
			c.entry("syscall", key)
			if name == "" {
				c.fail("syscall", key, "empty name")
			}
			if other, dup := byName[name]; dup {
				c.fail("syscall", key, "name %q maps to two numbers in this table (%d and %d)", name, other, num)
			}
			byName[name] = num
		}
		if k, ok := uapi.S.Syscalls[arch]; ok {
			for name, num := range byName {
				if kn, ok := k[name]; ok && kn != num {
					info = append(info, fmt.Sprintf("%s/%s: library %d, kernel %d", arch, name, num, kn))
				}
			}
		}
	}
	sort.Strings(info)
	hC20.Extra("info_syscall_differences_from_kernel_headers", strings.Join(info, "; "))
	// the tables as the library's own consumers use them: the parser shows (arch code, number) by the table's names,
	// and the rule encoder resolves that name under that architecture to that number
	codeOf := map[string]auparse.AuditArch{}
	for code, name := range auparse.AuditArchNames {
		codeOf[name] = code
	}
	for arch, tab := range auparse.AuditSyscalls {
		code, ok := codeOf[arch]
		if !ok {
			continue
		}
		for num, name := range tab {
			key := fmt.Sprintf("%s/%d", arch, num)
			m, err := auparse.Parse(auparse.AUDIT_SYSCALL, fmt.Sprintf("audit(1.000:9): arch=%x syscall=%d success=yes exit=0 a0=0 a1=0 a2=0 a3=0 items=0 ppid=1 pid=2 auid=0 uid=0 gid=0 euid=0 suid=0 fsuid=0 egid=0 sgid=0 fsgid=0 tty=(none) ses=1 comm=\"c\" exe=\"/c\" key=(null)", uint32(code), num))
			if err != nil {
				t.Fatalf("parse: %v", err)
			}
			d, err := m.Data()
			c.entry("syscall-displayed", key)
			if err != nil || d["arch"] != arch || d["syscall"] != name {
				c.fail("syscall-displayed", key, "the parser shows arch=%x syscall=%d as arch=%q syscall=%q (%v); the tables say %q and %q", uint32(code), num, d["arch"], d["syscall"], err, arch, name)
			}
			if num < 0 || num >= 2048 {
				continue
			}
			r, err := flags.Parse("-a always,exit -F arch=" + arch + " -S " + name)
			if err != nil {
				c.fail("syscall-resolved", key, "rule with -F arch=%s -S %s does not parse: %v", arch, name, err)
				continue
			}
			wf, err := rule.Build(r)
			if err != nil {
				c.fail("syscall-resolved", key, "the rule encoder does not resolve %q under %s: %v", name, arch, err)
				continue
			}
			c.entry("syscall-resolved", key)
			w, err := rulegen.Decode(wf)
			if err != nil {
				c.fail("syscall-resolved", key, "undecodable rule: %v", err)
				continue
			}
			for i, word := range w.Mask {
				want := uint32(0)
				if i == num/32 {
					want = 1 << (num % 32)
				}
				if word != want {
					c.fail("syscall-resolved", key, "the rule encoder resolves %q under %s to mask word %d = %#x, the table says number %d", name, arch, i, word, num)
					break
				}
			}
		}
	}
}

func TestC20RuleTables(t *testing.T) {
	c := &checker{t: t}
	roundTrip := func(table, key, line string) *rulegen.Wire {
		r, err := flags.Parse(line)
		if err != nil {
			c.fail(table, key, "%q does not parse: %v", line, err)
		}
		wf, err := rule.Build(r)
		if err != nil {
			return nil // not every field is admitted with every operator / list; C06 measures that
		}
		txt, err := rule.ToCommandLine(wf, false)
		if err != nil {
			c.fail(table, key, "%q builds but cannot be displayed: %v", line, err)
		}
		r2, err := flags.Parse(txt)
		if err != nil {
			c.fail(table, key, "%q is displayed as %q, which does not parse: %v", line, txt, err)
		}
		wf2, err := rule.Build(r2)
		if err != nil || string(wf2) != string(wf) {
			c.fail(table, key, "%q is displayed as %q, which builds to a different rule (err %v)", line, txt, err)
		}
		w, _ := rulegen.Decode(wf)
		return w
	}
	vals := map[string]string{"arch": "b64", "perm": "wa", "filetype": "dir", "exit": "-EPERM", "msgtype": "1300", "saddr_fam": "2", "path": "/etc/hosts", "dir": "/etc"}
	// the names of the library's own (unexported) tables, read from the source of the working tree
	fields := sourceTableKeys(t, "/repo/rule/tables.go", "var fieldsTable = map[string]field{")
	libOps := sourceTableKeys(t, "/repo/rule/tables.go", "var operatorsTable = map[string]operator{")
	if len(fields) < 40 || len(libOps) < 8 {
		t.Fatalf("rule tables not found in the source (%d fields, %d operators)", len(fields), len(libOps))
	}
	for f := range rulegen.FieldConst {
		found := false
		for _, g := range fields {
			found = found || f == g
		}
		if !found {
			fields = append(fields, f)
		}
	}
	sort.Strings(fields)
	seenCode := map[uint32]string{}
	for _, f := range fields {
		c.entry("rule-field", f)
		v := vals[f]
		if v == "" {
			v = "7"
		}
		list := "exit"
		if f == "msgtype" {
			list = "user"
		}
		w := roundTrip("rule-field", f, fmt.Sprintf("-a always,%s -F %s=%s", list, f, v))
		if w == nil {
			c.fail("rule-field", f, "field is not accepted with '=' on the %s list", list)
		}
		if prev, dup := seenCode[w.Fields[0]]; dup {
			c.fail("rule-field", f, "encodes to code %d, like field %q: the name table is not invertible", w.Fields[0], prev)
		}
		seenCode[w.Fields[0]] = f
		// name -> code -> name: the displayed rule must use the same name (the -w form has no field names)
		if txt, err := rule.ToCommandLine(mustBuild(t, fmt.Sprintf("-a always,%s -F %s=%s -F pid=1", list, f, v)), false); err != nil || !strings.Contains(txt, " "+f+"=") {
			c.fail("rule-field", f, "a rule with field %q is displayed as %q (err %v): the name does not come back", f, txt, err)
		}
	}
	seenOp := map[uint32]string{}
	for _, op := range libOps {
		known := false
		for _, o := range rulegen.AllOps {
			known = known || o == op
		}
		if !known {
			c.fail("rule-operator", op, "operator %q is in the library's table but is not an auditctl operator", op)
		}
	}
	for _, op := range rulegen.AllOps {
		c.entry("rule-operator", op)
		w := roundTrip("rule-operator", op, fmt.Sprintf("-a always,exit -F 'pid%s7'", op))
		if w == nil {
			c.fail("rule-operator", op, "operator not accepted")
		}
		if prev, dup := seenOp[w.FieldOps[0]]; dup {
			c.fail("rule-operator", op, "encodes to %#x, like operator %q", w.FieldOps[0], prev)
		}
		seenOp[w.FieldOps[0]] = op
	}
	ids := []string{"uid", "euid", "suid", "fsuid", "auid", "obj_uid", "gid", "egid", "sgid", "fsgid", "obj_gid"}
	pairCode := map[string]uint32{}
	for _, l := range ids {
		for _, r := range ids {
			if l == r {
				continue
			}
			for _, op := range []string{"=", "!="} {
				key := l + op + r
				w := roundTrip("rule-comparison", key, fmt.Sprintf("-a always,exit -C %s", key))
				if w == nil {
					continue // not a comparable pair
				}
				c.entry("rule-comparison", key)
				// the comparison is symmetric: both orders must give the same code
				a, b := l, r
				if b < a {
					a, b = b, a
				}
				if prev, ok := pairCode[a+"/"+b]; ok && prev != w.Values[0] {
					c.fail("rule-comparison", key, "encodes to %d, the other order/operator gave %d", w.Values[0], prev)
				}
				pairCode[a+"/"+b] = w.Values[0]
			}
		}
	}
	codes := map[uint32]string{}
	for pair, code := range pairCode {
		if prev, dup := codes[code]; dup {
			c.fail("rule-comparison", pair, "encodes to %d, like %s", code, prev)
		}
		codes[code] = pair
	}
}

func TestC20Normalizations(t *testing.T) {
	c := &checker{t: t}
	b, err := os.ReadFile("/repo/aucoalesce/normalizations.yaml")
	if err != nil {
		t.Fatalf("cannot read normalizations.yaml: %v", err)
	}
	syscalls, recordTypes, err := aucoalesce.LoadNormalizationConfig(b)
	hC20.Eval()
	if err != nil {
		c.fail("normalization", "file", "the loader rejects the built-in table: %v", err)
	}
	loadedOnce := map[string]string{}
	for name, n := range syscalls {
		loadedOnce[name] = fmt.Sprint(n.ECS.Category.Values, n.ECS.Type.Values)
	}
	inAnyTable := map[string]bool{}
	for _, tab := range auparse.AuditSyscalls {
		for _, n := range tab {
			inAnyTable[n] = true
		}
	}
	for name := range syscalls {
		c.entry("normalization-syscall", name)
		if name != "*" && !inAnyTable[name] {
			c.fail("normalization-syscall", name, "is in no architecture's syscall table: the parser can never produce it")
		}
	}
	for name, norms := range recordTypes {
		c.entry("normalization-record-type", name)
		typ, err := auparse.GetAuditMessageType(name)
		if err != nil {
			c.fail("normalization-record-type", name, "is not a record type name: %v", err)
		}
		if typ.String() != name {
			c.fail("normalization-record-type", name, "is not the name the parser produces for type %d (%q): the lookup by name can never match", typ, typ.String())
		}
		if len(norms) > 1 {
			for i, n := range norms {
				if len(n.HasFields.Values) == 0 {
					c.fail("normalization-record-type", name, "has %d normalisations and number %d has no has_fields qualifier: selection is not deterministic", len(norms), i)
				}
			}
		}
	}
	// selection through the coalescer: a single record of the type that carries exactly the has_fields of one
	// entry (all of its type's other entries' fields absent) must come out with that entry's action — every
	// time, and whatever was coalesced before
	for pass := 0; pass < 2; pass++ {
		for name, norms := range recordTypes {
			typ, err := auparse.GetAuditMessageType(name)
			if err != nil || typ == auparse.AUDIT_SYSCALL || typ == auparse.AUDIT_EOE || typ == auparse.AUDIT_SECCOMP {
				continue
			}
			for i, n := range norms {
				if n.Action == "" {
					continue
				}
				key := fmt.Sprintf("%s#%d", name, i)
				body := "pid=1 uid=0"
				for _, f := range n.HasFields.Values {
					body += " " + f + "=x"
				}
				if typ == auparse.AUDIT_AVC {
					// AVC records have their own shapes; seresult is derived from "avc:  denied  { ... } for"
					body = `apparmor="DENIED" operation="open" profile="p" name="/x" pid=1 comm="c" requested_mask="r" denied_mask="r"`
					if len(n.HasFields.Values) == 1 && n.HasFields.Values[0] == "seresult" {
						body = `avc:  denied  { read } for  pid=1 comm="c" scontext=a:b:c:s0 tcontext=d:e:f:s0 tclass=file`
					} else if len(n.HasFields.Values) != 1 || n.HasFields.Values[0] != "apparmor" {
						continue // a qualifier this sweep has no record shape for
					}
				}
				m, err := auparse.Parse(typ, "audit(1.000:7): "+body)
				if err != nil {
					continue
				}
				if _, derr := m.Data(); derr != nil {
					continue
				}
				ev, err := aucoalesce.CoalesceMessages([]*auparse.AuditMessage{m})
				c.entry("normalization-selection", key)
				if err != nil || ev == nil {
					c.fail("normalization-selection", key, "a %s record with the fields %v cannot be coalesced: %v", name, n.HasFields.Values, err)
					continue
				}
				if ev.Summary.Action != n.Action {
					c.fail("normalization-selection", key, "a %s record with the fields %v (entry %d of %d for this type, action %q) comes out with action %q", name, n.HasFields.Values, i+1, len(norms), n.Action, ev.Summary.Action)
				}
			}
		}
	}
	// selection for compound events: a record of the type in a group with a SYSCALL record. What the record type and
	// the syscall select together is fixed when the event is returned: every event is kept, and after the whole
	// sweep (same record type with every other syscall in between) it must still carry the categorisation it had,
	// which holds every value of both entries
	x64 := map[string]int{}
	for num, name := range auparse.AuditSyscalls["x86_64"] {
		x64[name] = num
	}
	var sysReps []string // one syscall per distinct ECS categorisation
	seenECS := map[string]bool{}
	var sysNames []string
	for name := range syscalls {
		sysNames = append(sysNames, name)
	}
	sort.Strings(sysNames)
	for _, name := range sysNames {
		n := syscalls[name]
		k := fmt.Sprint(n.ECS.Category.Values, n.ECS.Type.Values)
		if _, ok := x64[name]; ok && !seenECS[k] && len(n.ECS.Category.Values)+len(n.ECS.Type.Values) > 0 {
			seenECS[k] = true
			sysReps = append(sysReps, name)
		}
	}
	for _, name := range []string{"setsockopt", "getpid", "nanosleep"} { // and syscalls the table leaves to its "*" entry
		if _, listed := syscalls[name]; !listed && syscalls["*"] != nil {
			sysReps = append(sysReps, name)
			break
		}
	}
	normOf := func(name string) *aucoalesce.Normalization {
		if n := syscalls[name]; n != nil {
			return n
		}
		return syscalls["*"]
	}
	type held struct {
		key      string
		ev       *aucoalesce.Event
		cat, typ []string
	}
	var kept []held
	var typeNames []string
	for name := range recordTypes {
		typeNames = append(typeNames, name)
	}
	sort.Strings(typeNames)
	for _, name := range typeNames {
		norms := recordTypes[name]
		typ, err := auparse.GetAuditMessageType(name)
		if err != nil || len(norms) != 1 || typ == auparse.AUDIT_SYSCALL || typ == auparse.AUDIT_EOE || typ == auparse.AUDIT_AVC {
			continue
		}
		n := norms[0]
		for _, sys := range sysReps {
			key := name + "+" + sys
			sc, err1 := auparse.Parse(auparse.AUDIT_SYSCALL, fmt.Sprintf("audit(1.000:8): arch=c000003e syscall=%d success=yes exit=0 a0=0 a1=0 a2=0 a3=0 items=0 ppid=1 pid=2 auid=0 uid=0 gid=0 euid=0 suid=0 fsuid=0 egid=0 sgid=0 fsgid=0 tty=(none) ses=1 comm=\"c\" exe=\"/c\" key=(null)", x64[sys]))
			m, err2 := auparse.Parse(typ, "audit(1.000:8): pid=2 uid=0 op=x res=1")
			if err1 != nil || err2 != nil {
				continue
			}
			ev, err := aucoalesce.CoalesceMessages([]*auparse.AuditMessage{m, sc}) // the kernel's order for these groups
			if err != nil || ev == nil || ev.Type != typ {
				continue // the group is not an event of this record type: nothing to say here
			}
			c.entry("normalization-compound", key)
			for _, want := range append(append([]string{}, n.ECS.Category.Values...), normOf(sys).ECS.Category.Values...) {
				if !contains(ev.ECS.Event.Category, want) {
					c.fail("normalization-compound", key, "categories %v lack %q (record type entry: %v, syscall entry: %v)", ev.ECS.Event.Category, want, n.ECS.Category.Values, normOf(sys).ECS.Category.Values)
				}
			}
			for _, want := range append(append([]string{}, n.ECS.Type.Values...), normOf(sys).ECS.Type.Values...) {
				if !contains(ev.ECS.Event.Type, want) {
					c.fail("normalization-compound", key, "types %v lack %q (record type entry: %v, syscall entry: %v)", ev.ECS.Event.Type, want, n.ECS.Type.Values, normOf(sys).ECS.Type.Values)
				}
			}
			kept = append(kept, held{key, ev, append([]string{}, ev.ECS.Event.Category...), append([]string{}, ev.ECS.Event.Type...)})
		}
	}
	for _, h := range kept {
		if fmt.Sprint(h.ev.ECS.Event.Category) != fmt.Sprint(h.cat) || fmt.Sprint(h.ev.ECS.Event.Type) != fmt.Sprint(h.typ) {
			c.fail("normalization-compound", h.key, "the event came out with categories %v and types %v; after further events of the same record type with other syscalls it carries %v and %v", h.cat, h.typ, h.ev.ECS.Event.Category, h.ev.ECS.Event.Type)
		}
	}
	for name, n := range syscalls { // and the table itself still says what it said
		if s0 := loadedOnce[name]; s0 != fmt.Sprint(n.ECS.Category.Values, n.ECS.Type.Values) {
			c.fail("normalization-syscall", name, "the entry changed while it was used: %s, now %v %v", s0, n.ECS.Category.Values, n.ECS.Type.Values)
		}
	}
	// loading twice gives the same selection
	s2, r2, err := aucoalesce.LoadNormalizationConfig(b)
	if err != nil || len(s2) != len(syscalls) || len(r2) != len(recordTypes) {
		c.fail("normalization", "file", "loading the table twice gives different results")
	}
	for name, n := range syscalls {
		if s2[name] == nil || s2[name].Action != n.Action {
			c.fail("normalization-syscall", name, "selects a different normalisation on a second load")
		}
	}
}

func contains(l []string, s string) bool {
	for _, x := range l {
		if x == s {
			return true
		}
	}
	return false
}

func errnoCanon(n int) string { return auparse.AuditErrnoToName[n] }

func mustBuild(t *testing.T, line string) rule.WireFormat {
	r, err := flags.Parse(line)
	if err != nil {
		t.Fatalf("%q: %v", line, err)
	}
	wf, err := rule.Build(r)
	if err != nil {
		t.Fatalf("%q: %v", line, err)
	}
	return wf
}

// sourceTableKeys returns the string keys of a map literal in a Go source file.
func sourceTableKeys(t *testing.T, path, header string) []string {
	b, err := os.ReadFile(path)
	if err != nil {
		t.Fatalf("cannot read %s: %v", path, err)
	}
	text := string(b)
	i := strings.Index(text, header)
	if i < 0 {
		return nil
	}
	body := text[i+len(header):]
	body = body[:strings.Index(body, "\n}")]
	var keys []string
	for _, m := range regexp.MustCompile(`(?m)^\s*"([^"]+)":`).FindAllStringSubmatch(body, -1) {
		keys = append(keys, m[1])
	}
	return keys
}

// TestC20TablesStable: the tables after use are the tables before use. The exported tables are copied, every
// conversion of the sweeps above is exercised once more together with a workload that goes through the code
// that reads them (every line of the repository's test logs parsed and decoded, the events coalesced, a
// catalogue of rules built and listed with and without id resolution, conversions of odd names), and the tables
// are compared with the copies; the per-code conversions are then repeated and must give what they gave.
func TestC20TablesStable(t *testing.T) {
	c := &checker{t: t}
	type snap struct {
		arch    map[auparse.AuditArch]string
		toNum   map[string]int
		toName  map[int]string
		sys     map[string]map[int]string
		names   map[uint16]string
		marshal map[uint16]string
	}
	take := func() snap {
		s := snap{arch: map[auparse.AuditArch]string{}, toNum: map[string]int{}, toName: map[int]string{}, sys: map[string]map[int]string{}, names: map[uint16]string{}, marshal: map[uint16]string{}}
		for k, v := range auparse.AuditArchNames {
			s.arch[k] = v
		}
		for k, v := range auparse.AuditErrnoToNum {
			s.toNum[k] = v
		}
		for k, v := range auparse.AuditErrnoToName {
			s.toName[k] = v
		}
		for a, tab := range auparse.AuditSyscalls {
			s.sys[a] = map[int]string{}
			for k, v := range tab {
				s.sys[a][k] = v
			}
		}
		for code := 0; code < 65536; code++ {
			typ := auparse.AuditMessageType(code)
			s.names[uint16(code)] = typ.String()
			b, _ := typ.MarshalText()
			s.marshal[uint16(code)] = string(b)
		}
		return s
	}
	before := take()
	// workload
	files, _ := filepath.Glob("/repo/testdata/*.log")
	more, _ := filepath.Glob("/repo/auparse/testdata/*.log")
	var group []*auparse.AuditMessage
	for _, f := range append(files, more...) {
		b, err := os.ReadFile(f)
		if err != nil {
			continue
		}
		for _, l := range strings.Split(string(b), "\n") {
			m, err := auparse.ParseLogLine(l)
			if err != nil {
				continue
			}
			_, _ = m.Data()
			_ = m.ToMapStr()
			if len(group) > 0 && group[0].Sequence != m.Sequence {
				if ev, err := aucoalesce.CoalesceMessages(group); err == nil {
					aucoalesce.ResolveIDs(ev)
				}
				group = nil
			}
			group = append(group, m)
		}
	}
	for _, l := range []string{"-a always,exit -F arch=b32 -S open,close -F uid>=1000 -F exit=-EACCES -F msgtype=CWD", "-a never,user -F msgtype=USER_LOGIN -F auid!=-1 -F filetype=dir",
		"-a always,exit -F arch=aarch64 -S openat -C uid!=euid -F key=k", "-w /etc/passwd -p wa -k k"} {
		if r, err := flags.Parse(l); err == nil {
			if wf, err := rule.Build(r); err == nil {
				_, _ = rule.ToCommandLine(wf, false)
				_, _ = rule.ToCommandLine(wf, true)
			}
		}
	}
	for _, n := range []string{"UNKNOWN[70000]", "unknown[12]", "][", "UNKNOWN[", "syscall", "", "Syscall", "USER_LOGIN "} {
		_, _ = auparse.GetAuditMessageType(n)
	}
	after := take()
	c.entry("tables-after-use", "all")
	switch {
	case !reflect.DeepEqual(before.arch, after.arch):
		c.fail("tables-after-use", "AuditArchNames", "the table changed while it was used")
	case !reflect.DeepEqual(before.toNum, after.toNum):
		c.fail("tables-after-use", "AuditErrnoToNum", "the table changed while it was used")
	case !reflect.DeepEqual(before.toName, after.toName):
		c.fail("tables-after-use", "AuditErrnoToName", "the table changed while it was used")
	case !reflect.DeepEqual(before.sys, after.sys):
		c.fail("tables-after-use", "AuditSyscalls", "the table changed while it was used")
	case !reflect.DeepEqual(before.names, after.names):
		c.fail("tables-after-use", "record type names", "String() of some record type changed while the tables were used")
	case !reflect.DeepEqual(before.marshal, after.marshal):
		c.fail("tables-after-use", "record type text", "MarshalText of some record type changed while the tables were used")
	}
}

// TestFirstUseC20: the tables at their first use in a process, by many goroutines at once. A table that is built
// when it is first asked for is half-built for whoever asks at the same moment. The test runs itself eight times
// as a child process (a first use happens once per process); in the child 32 goroutines resolve every syscall
// name of every architecture through the rule encoder and every record type / errno name through the parser
// tables, starting together, and compare with the tables.
func TestFirstUseC20(t *testing.T) {
	if os.Getenv("VERIF_C20_CHILD") == "" {
		for run := 0; run < 8; run++ {
			hC20.Eval()
			cmd := exec.Command(os.Args[0], "-test.run=^TestFirstUseC20$", "-test.count=1")
			cmd.Env = append(os.Environ(), "VERIF_C20_CHILD=1", "VERIF_EV_DIR=")
			out, err := cmd.CombinedOutput()
			if err != nil {
				tail := string(out)
				if len(tail) > 1500 {
					tail = tail[:1500]
				}
				hC20.Fail(t, "TestC20", C20Case{"first-use", fmt.Sprint(run)}, "32 goroutines using the tables for the first time in a fresh process: %v\n%s", err, tail)
			}
		}
		hC20.Class("table-first-use")
		hC20.NonTrivial(hx.FP("first-use"), func() string { return "first use of the tables by 32 goroutines at once, 8 fresh processes" })
		return
	}
	type job struct {
		arch, name string
		num        int
	}
	var jobs []job
	for arch, tab := range auparse.AuditSyscalls {
		for num, name := range tab {
			if num >= 0 && num < 2048 {
				jobs = append(jobs, job{arch, name, num})
			}
		}
	}
	sort.Slice(jobs, func(i, j int) bool { return jobs[i].arch+jobs[i].name < jobs[j].arch+jobs[j].name })
	const G = 32
	start := make(chan struct{})
	errs := make(chan string, G)
	var wg sync.WaitGroup
	for g := 0; g < G; g++ {
		wg.Add(1)
		go func(g int) {
			defer wg.Done()
			<-start
			for k := range jobs {
				j := jobs[(k*7+g*131)%len(jobs)]
				r, err := flags.Parse("-a always,exit -F arch=" + j.arch + " -S " + j.name)
				if err != nil {
					errs <- fmt.Sprintf("%s/%s: %v", j.arch, j.name, err)
					return
				}
				wf, err := rule.Build(r)
				if err != nil {
					errs <- fmt.Sprintf("%s/%s does not resolve: %v", j.arch, j.name, err)
					return
				}
				w, err := rulegen.Decode(wf)
				if err != nil || w.Mask[j.num/32] != 1<<(j.num%32) {
					errs <- fmt.Sprintf("%s/%s resolves to mask word %d = %#x, the table says %d", j.arch, j.name, j.num/32, w.Mask[j.num/32], j.num)
					return
				}
				if typ, err := auparse.GetAuditMessageType(auparse.AuditMessageType(1300 + k%30).String()); err != nil || int(typ) != 1300+k%30 {
					errs <- fmt.Sprintf("record type %d does not map back: %v %v", 1300+k%30, typ, err)
					return
				}
			}
		}(g)
	}
	close(start)
	wg.Wait()
	close(errs)
	for e := range errs {
		t.Error(e)
	}
}

// TestC20ConcurrentCalls: "the same way on every call" also when the calls overlap. The category and the name of all
// 65536 record types are taken once, sequentially; then eight goroutines walk the whole range at the same time, each
// with a stride of its own (so that neighbouring calls in time ask about different types and the types of different
// categories alternate), several passes, and compare every answer with the first one.
func TestC20ConcurrentCalls(t *testing.T) {
	c := &checker{t: t}
	var cat [65536]aucoalesce.AuditEventType
	var name [65536]string
	for i := 0; i < 65536; i++ {
		cat[i] = aucoalesce.GetAuditEventType(auparse.AuditMessageType(i))
		name[i] = auparse.AuditMessageType(i).String()
	}
	passes := 6
	if hx.Thorough() {
		passes = 60
	}
	strides := []int{1, 3, 101, 1301, 7, 65535, 257, 1099}
	type bad struct {
		typ        int
		what, want string
	}
	res := make(chan *bad, len(strides))
	var start sync.WaitGroup
	start.Add(1)
	for g, st := range strides {
		go func(g, st int) {
			start.Wait()
			for p := 0; p < passes; p++ {
				for k, i := 0, g*8191%65536; k < 65536; k, i = k+1, (i+st)%65536 {
					// around the borders of the categories the walk looks at both sides alternately
					for _, j := range [2]int{i, (i ^ 1) % 65536} {
						if got := aucoalesce.GetAuditEventType(auparse.AuditMessageType(j)); got != cat[j] {
							res <- &bad{j, fmt.Sprintf("categorised as %v (%d)", got, got), fmt.Sprintf("%v (%d)", cat[j], cat[j])}
							return
						}
					}
					if got := auparse.AuditMessageType(i).String(); got != name[i] {
						res <- &bad{i, "named " + got, name[i]}
						return
					}
				}
			}
			res <- nil
		}(g, st)
	}
	start.Done()
	for range strides {
		if b := <-res; b != nil {
			c.fail("record-type", fmt.Sprint(b.typ), "while eight goroutines asked about all record types at the same time: %s; asked alone, before: %s", b.what, b.want)
			return
		}
	}
	for i := 0; i < 65536; i += 257 {
		c.entry("record-type-concurrent", fmt.Sprint(i))
	}
}
