package client

import (
	"bytes"
	"encoding/binary"
	"errors"
	"fmt"
	"io"
	"os"
	"sync"
	"syscall"
	"testing"
	"time"

	libaudit "github.com/elastic/go-libaudit/v2"
	"pgregory.net/rapid"

	"verif/internal/hx"
	"verif/internal/simk"
	"verif/internal/uapi"
)

var ne = binary.NativeEndian

// C16 — audit_status messages are encoded and decoded per the kernel layout.

var hC16 = hx.New("C16", "rapid-generated cases of three kinds: (set) every Set* command x argument (full uint32/int32 range with boundary bias, both booleans, failure modes 0..2) x both wait modes, checked on the request the simulated kernel saw; (get) GetStatus against generated kernel status structs; (wire) FromWireFormat on buffers of every length 0..80 with arbitrary content, placed inside a larger array whose tail is poisoned, into receivers pre-filled with garbage; plus the exported constants against the kernel header snapshot. Oracle: independent audit_status layout (field offsets written from the kernel struct, mask/feature bits and message types from the header snapshot). Non-trivial = set with a non-zero argument, or a buffer length other than 44; distinct by hash of the case")

// byte offsets of struct audit_status (include/uapi/linux/audit.h)
const (
	offMask = 4 * iota
	offEnabled
	offFailure
	offPID
	offRateLimit
	offBacklogLimit
	offLost
	offBacklog
	offFeatureBitmap
	offBacklogWaitTime
	offBacklogWaitTimeActual
	sizeofStatus
)

const minStatus = offBacklog + 4 // the 2.6.32 size

type C16Case struct {
	Kind    string `json:"kind"` // set, get, wire
	Setter  string `json:"setter,omitempty"`
	U32     uint32 `json:"u32,omitempty"`
	Bool    bool   `json:"bool,omitempty"`
	NoWait  bool   `json:"nowait,omitempty"`
	Buf     []byte `json:"buf,omitempty"`
	Garbage []byte `json:"garbage,omitempty"`
	// kind "get": replies to further GetStatus calls on the same client while the earlier results are still held
	More [][]byte `json:"more,omitempty"`
	// kind "get": the kernel's status reply is queued before the ACK of the request (either an error or the exact
	// fields; the receive buffer is reused, so a reply kept across the next receive shows the ACK's bytes)
	ReplyFirst bool `json:"reply_first,omitempty"`
	// kind "seq": a second setter on the same client after a first one in the other wait mode whose
	// acknowledgement carries PrevErrno and has not been waited for
	Prev      string `json:"prev,omitempty"`
	PrevErrno int    `json:"prev_errno,omitempty"`
	// kind "setfault": a setter in WaitForReply mode whose wait goes wrong: the first receive fails with RecvErrno
	// (0 = it works), Events unsolicited records come before the acknowledgement, which carries AckErrno
	RecvErrno int `json:"recv_errno,omitempty"`
	AckErrno  int `json:"ack_errno,omitempty"`
	Events    int `json:"events,omitempty"`
	// kind "setfault": the socket refuses the request itself (either wait mode)
	SendErrno int `json:"send_errno,omitempty"`
}

func (c C16Case) Describe() string {
	return fmt.Sprintf("kind=%s setter=%s u32=%d bool=%v nowait=%v prev=%s prev-errno=%d recv-errno=%d ack-errno=%d events=%d buf(%d)=%x garbage=%x more=%x", c.Kind, c.Setter, c.U32, c.Bool, c.NoWait, c.Prev, c.PrevErrno, c.RecvErrno, c.AckErrno, c.Events, len(c.Buf), c.Buf, c.Garbage, c.More) + map[bool]string{true: " reply-before-ack", false: ""}[c.ReplyFirst]
}

var setters = []string{"SetPID", "SetRateLimit", "SetBacklogLimit", "SetEnabled", "SetImmutable", "SetFailure", "SetBacklogWaitTime"}

func genC16(t *rapid.T) C16Case {
	c := C16Case{Kind: rapid.SampledFrom([]string{"set", "set", "seq", "get", "wire", "wire", "many", "getset", "setfault"}).Draw(t, "kind")}
	if c.Kind == "getset" {
		// GetStatus with a reply of any length the decoder accepts, then a setter on the same client: what was
		// learnt from the reply must not change what the setter sends
		c.Buf = rapid.SliceOfN(rapid.Byte(), 32, 60).Draw(t, "status")
		c.Setter = rapid.SampledFrom(setters).Draw(t, "setter")
		c.U32 = rapid.Uint32().Draw(t, "u32")
		c.Bool = rapid.Bool().Draw(t, "bool")
		c.NoWait = rapid.Bool().Draw(t, "nowait")
		return c
	}
	if c.Kind == "many" {
		// a long run of setters without waiting on one client: every one of them is a full request
		c.Setter = rapid.SampledFrom(setters).Draw(t, "setter")
		c.U32 = uint32(rapid.SampledFrom([]int{65, 66, 64, 63, 129, 100, 257, 3, 33, 1025}).Draw(t, "run"))
		c.Bool = rapid.Bool().Draw(t, "bool")
		return c
	}
	switch c.Kind {
	case "seq":
		c.Setter = rapid.SampledFrom(setters).Draw(t, "setter")
		c.Prev = rapid.SampledFrom(setters).Draw(t, "prev")
		c.U32 = rapid.Uint32().Draw(t, "u32")
		c.Bool = rapid.Bool().Draw(t, "bool")
		c.NoWait = rapid.Bool().Draw(t, "nowait")
		c.PrevErrno = rapid.SampledFrom([]int{0, 0, int(syscall.EINVAL), int(syscall.EPERM), int(syscall.EBUSY)}).Draw(t, "preverrno")
	case "setfault":
		c.Setter = rapid.SampledFrom(setters).Draw(t, "setter")
		c.U32 = rapid.Uint32Range(0, 9999).Draw(t, "u32")
		c.Bool = rapid.Bool().Draw(t, "bool")
		c.RecvErrno = rapid.SampledFrom([]int{int(syscall.ENOBUFS), 0, int(syscall.EBADF), int(syscall.ENOTCONN), int(syscall.EIO), int(syscall.EINTR), int(syscall.ENOMEM)}).Draw(t, "recverrno")
		c.AckErrno = rapid.SampledFrom([]int{0, int(syscall.EPERM), int(syscall.EEXIST), int(syscall.EINVAL), int(syscall.ENOBUFS), int(syscall.EAGAIN)}).Draw(t, "ackerrno")
		c.Events = rapid.SampledFrom([]int{0, 0, 1, 3, 12}).Draw(t, "events")
		if rapid.IntRange(0, 3).Draw(t, "sendfails") == 0 {
			c.SendErrno = rapid.SampledFrom([]int{int(syscall.ENOBUFS), int(syscall.EPERM), int(syscall.ECONNREFUSED), int(syscall.EBADF), int(syscall.EMSGSIZE)}).Draw(t, "senderrno")
			c.NoWait = rapid.Bool().Draw(t, "nowait")
		}
	case "set":
		c.Setter = rapid.SampledFrom(setters).Draw(t, "setter")
		c.U32 = rapid.OneOf(rapid.Uint32(), rapid.SampledFrom([]uint32{0, 1, 2, 3, 64, 8192, 1<<31 - 1, 1 << 31, 1<<32 - 1, 60000})).Draw(t, "u32")
		c.Bool = rapid.Bool().Draw(t, "bool")
		c.NoWait = rapid.Bool().Draw(t, "nowait")
	case "get":
		c.Buf = rapid.SliceOfN(rapid.Byte(), 32, 60).Draw(t, "status")
		c.More = rapid.SliceOfN(rapid.SliceOfN(rapid.Byte(), 32, 60), 0, 3).Draw(t, "more")
		c.ReplyFirst = rapid.IntRange(0, 3).Draw(t, "replyfirst") == 0
	default:
		n := rapid.OneOf(rapid.IntRange(0, 80), rapid.SampledFrom([]int{0, 1, 31, 32, 33, 35, 36, 40, 43, 44, 45, 48, 64})).Draw(t, "len")
		c.Buf = rapid.SliceOfN(rapid.Byte(), n, n).Draw(t, "buf")
		c.Garbage = rapid.SliceOfN(rapid.Byte(), 44, 44).Draw(t, "garbage")
	}
	return c
}

func statusFromBytes(b []byte) libaudit.AuditStatus {
	w := func(i int) uint32 { return ne.Uint32(b[4*i:]) }
	return libaudit.AuditStatus{Mask: libaudit.AuditStatusMask(w(0)), Enabled: w(1), Failure: w(2), PID: w(3), RateLimit: w(4), BacklogLimit: w(5),
		Lost: w(6), Backlog: w(7), FeatureBitmap: w(8), BacklogWaitTime: w(9), BacklogWaitTimeActual: w(10)}
}

// checkDecoded compares a decoded status with the buffer it came from.
func checkDecoded(got *libaudit.AuditStatus, buf []byte, what string) error {
	gb := statusBytes(got)
	names := []string{"Mask", "Enabled", "Failure", "PID", "RateLimit", "BacklogLimit", "Lost", "Backlog", "FeatureBitmap", "BacklogWaitTime", "BacklogWaitTimeActual"}
	for i, name := range names {
		g := ne.Uint32(gb[4*i:])
		switch {
		case 4*i+4 <= len(buf): // fully inside the buffer
			if w := ne.Uint32(buf[4*i:]); g != w {
				return fmt.Errorf("%s: %s = %#x, the buffer holds %#x at offset %d", what, name, g, w, 4*i)
			}
		case 4*i >= len(buf): // wholly beyond the buffer
			if g != 0 {
				return fmt.Errorf("%s: %s = %#x although the %d-byte buffer does not reach offset %d (must be 0)", what, name, g, len(buf), 4*i)
			}
		}
	}
	return nil
}

func callSetter(cl *libaudit.AuditClient, name string, u32 uint32, b bool, wm libaudit.WaitMode) error {
	switch name {
	case "SetPID":
		return cl.SetPID(wm)
	case "SetRateLimit":
		return cl.SetRateLimit(u32, wm)
	case "SetBacklogLimit":
		return cl.SetBacklogLimit(u32, wm)
	case "SetEnabled":
		return cl.SetEnabled(b, wm)
	case "SetImmutable":
		return cl.SetImmutable(wm)
	case "SetFailure":
		return cl.SetFailure(libaudit.FailureMode(u32%3), wm)
	}
	return cl.SetBacklogWaitTime(int32(u32), wm)
}

func propC16(c C16Case) error {
	switch c.Kind {
	case "many":
		k := simk.New(7)
		k.KeepQueue = true
		cl := &libaudit.AuditClient{Netlink: k}
		for i := 0; i < int(c.U32); i++ {
			name := setters[(i+len(c.Setter))%len(setters)]
			if i%3 == 0 {
				name = c.Setter
			}
			if name == "SetPID" || name == "SetImmutable" {
				name = "SetRateLimit"
			}
			if err := callSetter(cl, name, uint32(i), c.Bool, libaudit.NoWait); err != nil {
				return fmt.Errorf("setter %d (%s, NoWait) of a run of %d on one client: %v", i, name, c.U32, err)
			}
			if len(k.Sent) != i+1 {
				return fmt.Errorf("setter %d (%s, NoWait) of a run of %d on one client: %d requests sent so far", i, name, c.U32, len(k.Sent))
			}
			s := k.Sent[i]
			if uint32(s.Type) != uapi.A("AUDIT_SET") || s.Flags != syscall.NLM_F_REQUEST|syscall.NLM_F_ACK || len(s.Data) != sizeofStatus {
				return fmt.Errorf("setter %d (%s, NoWait) of a run of %d on one client sent type %d flags %#x with %d bytes, want AUDIT_SET with REQUEST|ACK and a full-size status", i, name, c.U32, s.Type, s.Flags, len(s.Data))
			}
		}
		hC16.Class("set-long-run-without-waiting")
		hC16.NonTrivial(hx.FP(c.Describe()), c.Describe)
		return nil
	case "seq":
		// "Every Set* command sends one AUDIT_SET request": also when an earlier request of the other wait mode
		// is still unacknowledged on the same client, whatever its acknowledgement says
		k := simk.New(7)
		k.KeepQueue = true
		errno := c.PrevErrno
		k.OnSend = func(k *simk.K, s simk.Sent) {
			k.Push(simk.Ack(s.Seq, errno, s.Type))
			errno = 0
		}
		cl := &libaudit.AuditClient{Netlink: k}
		first, second := libaudit.NoWait, libaudit.WaitForReply
		if c.NoWait {
			first, second = libaudit.WaitForReply, libaudit.NoWait
		}
		_ = callSetter(cl, c.Prev, 1, true, first)
		if len(k.Sent) != 1 {
			return fmt.Errorf("%s (first call): %d requests sent, want one", c.Prev, len(k.Sent))
		}
		_ = callSetter(cl, c.Setter, c.U32, c.Bool, second) // the result depends on what is queued and is not asserted here
		what := fmt.Sprintf("%s after an unacknowledged %s (ack errno %d, modes swapped: %v)", c.Setter, c.Prev, c.PrevErrno, c.NoWait)
		if len(k.Sent) != 2 {
			return fmt.Errorf("%s: %d requests were sent by the second command, every Set* command sends exactly one", what, len(k.Sent)-1)
		}
		s := k.Sent[1]
		if uint32(s.Type) != uapi.A("AUDIT_SET") || len(s.Data) != sizeofStatus || s.Flags != syscall.NLM_F_REQUEST|syscall.NLM_F_ACK {
			return fmt.Errorf("%s: the second command sent type %d, %d bytes, flags %#x", what, s.Type, len(s.Data), s.Flags)
		}
		hC16.Class("set-after-unacknowledged-set")
		hC16.NonTrivial(hx.FP(c.Describe()), c.Describe)
	case "setfault":
		// whatever happens to the wait — a receive that fails (a full socket buffer: ENOBUFS), a refusal, records in
		// between — the command has sent its one request and sends nothing more
		k := simk.New(7)
		k.OnSend = func(k *simk.K, s simk.Sent) {
			if c.RecvErrno != 0 && len(k.Sent) == 1 {
				k.Fail(syscall.Errno(c.RecvErrno))
			}
			for i := 0; i < c.Events; i++ {
				k.Push(simk.Msg(1300, 0, 0, 0, []byte("audit(1.000:1): x=y")))
			}
			k.Push(simk.Ack(s.Seq, c.AckErrno, s.Type))
		}
		cl := &libaudit.AuditClient{Netlink: k}
		if c.SendErrno != 0 {
			// nothing goes out: the command says so, in either mode, and does not wait for an answer to nothing
			k.SendErr = syscall.Errno(c.SendErrno)
			wm := libaudit.WaitForReply
			if c.NoWait {
				wm = libaudit.NoWait
			}
			err := callSetter(cl, c.Setter, c.U32, c.Bool, wm)
			if err == nil {
				return fmt.Errorf("%s (nowait=%v): the socket refused the request with errno %d and the command returned nil", c.Setter, c.NoWait, c.SendErrno)
			}
			if k.Recvs != 0 {
				return fmt.Errorf("%s (nowait=%v): the socket refused the request with errno %d; the command then read from the socket %d times (result %v)", c.Setter, c.NoWait, c.SendErrno, k.Recvs, err)
			}
			hC16.Class("set-refused-by-the-socket")
			return nil
		}
		err := callSetter(cl, c.Setter, c.U32, c.Bool, libaudit.WaitForReply)
		what := fmt.Sprintf("%s in WaitForReply mode (first receive fails with errno %d, %d records before the acknowledgement, which carries errno %d; result %v)", c.Setter, c.RecvErrno, c.Events, c.AckErrno, err)
		if len(k.Sent) != 1 {
			return fmt.Errorf("%s: %d requests were sent, every Set* command sends exactly one", what, len(k.Sent))
		}
		if s := k.Sent[0]; uint32(s.Type) != uapi.A("AUDIT_SET") || len(s.Data) != sizeofStatus || s.Flags != syscall.NLM_F_REQUEST|syscall.NLM_F_ACK {
			return fmt.Errorf("%s: the command sent type %d, %d bytes, flags %#x", what, s.Type, len(s.Data), s.Flags)
		}
		if err == nil && c.AckErrno != 0 {
			return fmt.Errorf("%s: the kernel refused the request and the command returned nil", what)
		}
		hC16.Class("set-with-failing-wait")
		if c.RecvErrno != 0 && c.RecvErrno != int(syscall.EINTR) && c.RecvErrno != int(syscall.EAGAIN) {
			hC16.Class("set-with-receive-error")
			hC16.NonTrivial(hx.FP(c.Describe()), c.Describe)
		}
	case "set", "getset":
		k := simk.New(7)
		k.OnSend = func(k *simk.K, s simk.Sent) {
			k.Push(simk.Ack(s.Seq, 0, s.Type))
			if uint32(s.Type) == uapi.A("AUDIT_GET") {
				k.Push(simk.Msg(uint16(uapi.A("AUDIT_GET")), 0, s.Seq, 0, c.Buf))
			}
		}
		cl := &libaudit.AuditClient{Netlink: k}
		if c.Kind == "getset" {
			// what GetStatus learnt from a reply of whatever length must not change what the setter sends
			if _, err := cl.GetStatus(); err != nil {
				return fmt.Errorf("GetStatus with a %d-byte reply: %v", len(c.Buf), err)
			}
			k.Sent, k.Recvs = nil, 0
			hC16.Class("set-after-get-on-one-client")
		}
		wm := libaudit.WaitForReply
		if c.NoWait {
			wm = libaudit.NoWait
		}
		var err error
		var bit string
		var off int
		val := c.U32
		switch c.Setter {
		case "SetPID":
			err, bit, off, val = cl.SetPID(wm), "AUDIT_STATUS_PID", offPID, uint32(os.Getpid())
		case "SetRateLimit":
			err, bit, off = cl.SetRateLimit(c.U32, wm), "AUDIT_STATUS_RATE_LIMIT", offRateLimit
		case "SetBacklogLimit":
			err, bit, off = cl.SetBacklogLimit(c.U32, wm), "AUDIT_STATUS_BACKLOG_LIMIT", offBacklogLimit
		case "SetEnabled":
			val = 0
			if c.Bool {
				val = 1
			}
			err, bit, off = cl.SetEnabled(c.Bool, wm), "AUDIT_STATUS_ENABLED", offEnabled
		case "SetImmutable":
			err, bit, off, val = cl.SetImmutable(wm), "AUDIT_STATUS_ENABLED", offEnabled, 2
		case "SetFailure":
			val = c.U32 % 3
			err, bit, off = cl.SetFailure(libaudit.FailureMode(val), wm), "AUDIT_STATUS_FAILURE", offFailure
		case "SetBacklogWaitTime":
			err, bit, off = cl.SetBacklogWaitTime(int32(c.U32), wm), "AUDIT_STATUS_BACKLOG_WAIT_TIME", offBacklogWaitTime
		}
		what := fmt.Sprintf("%s(%d/%v, nowait=%v)", c.Setter, c.U32, c.Bool, c.NoWait)
		if err != nil {
			return fmt.Errorf("%s: %v", what, err)
		}
		if len(k.Sent) != 1 {
			return fmt.Errorf("%s: %d requests sent, want one", what, len(k.Sent))
		}
		s := k.Sent[0]
		if uint32(s.Type) != uapi.A("AUDIT_SET") {
			return fmt.Errorf("%s: message type %d, want AUDIT_SET (%d)", what, s.Type, uapi.A("AUDIT_SET"))
		}
		if s.Flags != syscall.NLM_F_REQUEST|syscall.NLM_F_ACK {
			return fmt.Errorf("%s: flags %#x, want REQUEST|ACK (%#x)", what, s.Flags, syscall.NLM_F_REQUEST|syscall.NLM_F_ACK)
		}
		if len(s.Data) != sizeofStatus {
			return fmt.Errorf("%s: payload of %d bytes, want a full-size audit_status (%d)", what, len(s.Data), sizeofStatus)
		}
		want := make([]byte, sizeofStatus)
		ne.PutUint32(want[offMask:], uapi.A(bit))
		ne.PutUint32(want[off:], val)
		for i := 0; i < sizeofStatus; i += 4 {
			if g, w := ne.Uint32(s.Data[i:]), ne.Uint32(want[i:]); g != w {
				return fmt.Errorf("%s: audit_status word at offset %d = %#x, want %#x (mask bit %s, value at offset %d)", what, i, g, w, bit, off)
			}
		}
		if c.NoWait && k.Recvs != 0 {
			return fmt.Errorf("%s: NoWait mode performed %d receives", what, k.Recvs)
		}
		if !c.NoWait && k.Recvs == 0 {
			return fmt.Errorf("%s: WaitForReply mode did not read the acknowledgement", what)
		}
		if val != 0 {
			hC16.Class("set-nonzero")
			hC16.NonTrivial(hx.FP(c.Describe()), c.Describe)
		}
		hC16.Class("set-" + c.Setter)
	case "get":
		k := simk.New(41)
		replies := append([][]byte{c.Buf}, c.More...)
		call := 0
		k.OnSend = func(k *simk.K, s simk.Sent) {
			if c.ReplyFirst {
				k.Push(simk.Msg(uint16(uapi.A("AUDIT_GET")), 0, s.Seq, 0, replies[call]))
				k.Push(simk.Ack(s.Seq, 0, s.Type))
				return
			}
			k.Push(simk.Ack(s.Seq, 0, s.Type))
			k.Push(simk.Msg(uint16(uapi.A("AUDIT_GET")), 0, s.Seq, 0, replies[call]))
		}
		cl := &libaudit.AuditClient{Netlink: k}
		var held []*libaudit.AuditStatus
		for call = range replies {
			st, err := cl.GetStatus()
			if c.ReplyFirst && err != nil && st == nil {
				hC16.Class("get-reply-before-ack-refused")
				return nil // refusing the unexpected order is fine; wrong fields would not be
			}
			if err != nil || st == nil {
				return fmt.Errorf("GetStatus call %d with a %d-byte reply: %v", call+1, len(replies[call]), err)
			}
			if len(k.Sent) != call+1 || uint32(k.Sent[call].Type) != uapi.A("AUDIT_GET") || k.Sent[call].Flags != syscall.NLM_F_REQUEST|syscall.NLM_F_ACK || len(k.Sent[call].Data) != 0 {
				return fmt.Errorf("GetStatus call %d sent %+v, want one AUDIT_GET request with REQUEST|ACK and no payload", call+1, k.Sent)
			}
			held = append(held, st)
			// every result obtained so far still shows what the kernel answered to its own request
			for i, h := range held {
				if err := checkDecoded(h, replies[i], fmt.Sprintf("result of GetStatus call %d (reply of %d bytes %x), looked at after call %d", i+1, len(replies[i]), replies[i], call+1)); err != nil {
					return err
				}
			}
		}
		hC16.Class("get")
		if len(replies) > 1 {
			hC16.Class("get-repeated-on-one-client")
		}
		if len(c.Buf) != sizeofStatus {
			hC16.NonTrivial(hx.FP(c.Describe()), c.Describe)
		}
	default:
		// the buffer sits inside a larger array whose tail is poisoned
		arena := make([]byte, len(c.Buf)+64)
		copy(arena, c.Buf)
		for i := len(c.Buf); i < len(arena); i++ {
			arena[i] = 0xA5
		}
		buf := arena[:len(c.Buf):len(c.Buf)]
		st := statusFromBytes(c.Garbage)
		err := st.FromWireFormat(buf)
		what := fmt.Sprintf("FromWireFormat(%d bytes %x)", len(c.Buf), c.Buf)
		if len(c.Buf) < minStatus {
			if !errors.Is(err, io.ErrUnexpectedEOF) {
				return fmt.Errorf("%s: error %v, want io.ErrUnexpectedEOF for a buffer shorter than %d", what, err, minStatus)
			}
			hC16.Class("wire-too-short")
		} else {
			if err != nil {
				return fmt.Errorf("%s: %v", what, err)
			}
			if err := checkDecoded(&st, c.Buf, what); err != nil {
				return err
			}
			hC16.Class("wire-decoded")
		}
		for i := len(c.Buf); i < len(arena); i++ {
			if arena[i] != 0xA5 {
				return fmt.Errorf("%s: wrote outside the buffer", what)
			}
		}
		if len(c.Buf) != sizeofStatus {
			hC16.NonTrivial(hx.FP(c.Describe()), c.Describe)
		}
	}
	return nil
}

func TestC16Regress(t *testing.T) { hx.Regress(t, hC16, "TestC16", propC16) }

func TestC16(t *testing.T) { hx.Check(t, hC16, "TestC16", genC16, propC16) }

// TestC16FieldValues: every field of the status x small and boundary values (0..300, the powers of two and
// their neighbours, the largest values), one field at a time over a background of zeros and of ones, through
// FromWireFormat and through GetStatus: the field comes back exactly, the others stay what they were.
func TestC16FieldValues(t *testing.T) {
	var values []uint32
	for v := uint32(0); v <= 300; v++ {
		values = append(values, v)
	}
	for b := uint(8); b < 32; b++ {
		values = append(values, 1<<b-1, 1<<b, 1<<b+1)
	}
	values = append(values, 0xfffffffe, 0xffffffff)
	for field := 0; field < sizeofStatus/4; field++ {
		for _, bg := range []byte{0, 0xff, 1} {
			for _, v := range values {
				buf := bytes.Repeat([]byte{bg}, sizeofStatus)
				ne.PutUint32(buf[4*field:], v)
				for _, kind := range []string{"wire", "get"} {
					c := C16Case{Kind: kind, Buf: buf, Garbage: bytes.Repeat([]byte{0x5a}, 44)}
					hC16.Eval()
					if err := hx.Guard(propC16, c); err != nil {
						hC16.Fail(t, "TestC16", c, "field %d = %#x over a background of %#x bytes: %v", field, v, bg, err)
					}
				}
			}
		}
	}
	hC16.Class("field-value-sweep")
}

// TestC16Constants compares the exported names with the kernel's numbers and
// sweeps FromWireFormat over every length 0..80.
func TestC16Constants(t *testing.T) {
	type kv struct {
		name string
		got  uint32
		want uint32
	}
	checks := []kv{
		{"AuditGet", uint32(libaudit.AuditGet), uapi.A("AUDIT_GET")},
		{"AuditSet", uint32(libaudit.AuditSet), uapi.A("AUDIT_SET")},
		{"SilentOnFailure", uint32(libaudit.SilentOnFailure), uapi.A("AUDIT_FAIL_SILENT")},
		{"LogOnFailure", uint32(libaudit.LogOnFailure), uapi.A("AUDIT_FAIL_PRINTK")},
		{"PanicOnFailure", uint32(libaudit.PanicOnFailure), uapi.A("AUDIT_FAIL_PANIC")},
		{"AuditStatusEnabled", uint32(libaudit.AuditStatusEnabled), uapi.A("AUDIT_STATUS_ENABLED")},
		{"AuditStatusFailure", uint32(libaudit.AuditStatusFailure), uapi.A("AUDIT_STATUS_FAILURE")},
		{"AuditStatusPID", uint32(libaudit.AuditStatusPID), uapi.A("AUDIT_STATUS_PID")},
		{"AuditStatusRateLimit", uint32(libaudit.AuditStatusRateLimit), uapi.A("AUDIT_STATUS_RATE_LIMIT")},
		{"AuditStatusBacklogLimit", uint32(libaudit.AuditStatusBacklogLimit), uapi.A("AUDIT_STATUS_BACKLOG_LIMIT")},
		{"AuditStatusBacklogWaitTime", uint32(libaudit.AuditStatusBacklogWaitTime), uapi.A("AUDIT_STATUS_BACKLOG_WAIT_TIME")},
		{"AuditStatusLost", uint32(libaudit.AuditStatusLost), uapi.A("AUDIT_STATUS_LOST")},
		{"AuditFeatureBitmapBacklogLimit", uint32(libaudit.AuditFeatureBitmapBacklogLimit), uapi.A("AUDIT_FEATURE_BITMAP_BACKLOG_LIMIT")},
		{"AuditFeatureBitmapBacklogWaitTime", uint32(libaudit.AuditFeatureBitmapBacklogWaitTime), uapi.A("AUDIT_FEATURE_BITMAP_BACKLOG_WAIT_TIME")},
		{"AuditFeatureBitmapExecutablePath", uint32(libaudit.AuditFeatureBitmapExecutablePath), uapi.A("AUDIT_FEATURE_BITMAP_EXECUTABLE_PATH")},
		{"AuditFeatureBitmapExcludeExtend", uint32(libaudit.AuditFeatureBitmapExcludeExtend), uapi.A("AUDIT_FEATURE_BITMAP_EXCLUDE_EXTEND")},
		{"AuditFeatureBitmapSessionIDFilter", uint32(libaudit.AuditFeatureBitmapSessionIDFilter), uapi.A("AUDIT_FEATURE_BITMAP_SESSIONID_FILTER")},
		{"AuditFeatureBitmapLostReset", uint32(libaudit.AuditFeatureBitmapLostReset), uapi.A("AUDIT_FEATURE_BITMAP_LOST_RESET")},
		{"MinSizeofAuditStatus", uint32(libaudit.MinSizeofAuditStatus), minStatus},
		{"AuditMessageMaxLength", uint32(libaudit.AuditMessageMaxLength), 8970},
		{"NetlinkGroupReadLog", uint32(libaudit.NetlinkGroupReadLog), 1}, // enum audit_nlgrps: AUDIT_NLGRP_READLOG
	}
	for _, c := range checks {
		hC16.Eval()
		if c.got != c.want {
			hC16.Fail(t, "TestC16", C16Case{Kind: "constant", Setter: c.name}, "exported %s = %d, the kernel's value is %d", c.name, c.got, c.want)
		}
	}
	hC16.Extra("constants_checked", len(checks))
	// every length with a few contents (incl. all 0xFF so that stale/poison values stand out)
	for n := 0; n <= 80; n++ {
		for _, fill := range []byte{0x00, 0xFF, 0x5A} {
			buf := make([]byte, n)
			for i := range buf {
				buf[i] = fill ^ byte(i)
			}
			c := C16Case{Kind: "wire", Buf: buf, Garbage: []byte("\xde\xad\xbe\xef\xde\xad\xbe\xef\xde\xad\xbe\xef\xde\xad\xbe\xef\xde\xad\xbe\xef\xde\xad\xbe\xef\xde\xad\xbe\xef\xde\xad\xbe\xef\xde\xad\xbe\xef\xde\xad\xbe\xef\xde\xad\xbe\xef")}
			hC16.Eval()
			if err := hx.Guard(propC16, c); err != nil {
				hC16.Fail(t, "TestC16", c, "%v", err)
			}
		}
	}
}

// TestC16Concurrent: several clients at once, each in its own goroutine with its own simulated kernel and its
// own status values: a client's GetStatus shows what its kernel sent, its setters send what was asked, whatever
// the other clients are doing (the properties of the single-client cases, with unrelated traffic next door).
func TestC16Concurrent(t *testing.T) {
	rounds := hx.EnvInt("VERIF_N", 200)
	gen := rapid.Custom(func(rt *rapid.T) C16Case { return genC16(rt) })
	for r := 0; r < rounds; r++ {
		const G = 6
		cases := make([][]C16Case, G)
		for g := range cases {
			for i := 0; i < 30; i++ {
				c := gen.Example(int(hx.Seed())*1000003 + (r*G+g)*30 + i)
				if c.Kind == "many" || c.Kind == "seq" {
					c = C16Case{Kind: "get", Buf: bytes.Repeat([]byte{byte(16*g + i)}, 44)}
				}
				cases[g] = append(cases[g], c)
			}
		}
		hC16.BeginLimit("TestC16", cases[0][0], 120*time.Second)
		errs := make([]error, G)
		bad := make([]C16Case, G)
		var wg sync.WaitGroup
		start := make(chan struct{})
		for g := 0; g < G; g++ {
			wg.Add(1)
			go func(g int) {
				defer wg.Done()
				<-start
				for _, c := range cases[g] {
					if err := hx.Guard(propC16, c); err != nil && errs[g] == nil {
						errs[g], bad[g] = err, c
					}
				}
			}(g)
		}
		close(start)
		wg.Wait()
		hC16.End()
		for g := range errs {
			hC16.Eval()
			if errs[g] != nil {
				hC16.Fail(t, "TestC16", bad[g], "while five other clients were busy in other goroutines: %v", errs[g])
			}
		}
		hC16.Class("concurrent-clients-round")
	}
}

// TestC16RealClients: the clients as the library's constructors set them up, against the kernel's audit socket,
// with the one status command that changes nothing: GetStatus (AUDIT_GET). Whatever the constructor — the
// unicast client or the one that joins the read-log multicast group — the command goes out and the kernel's
// status comes back, the same from both (the kernel answers AUDIT_GET on any audit socket alike).
func TestC16RealClients(t *testing.T) {
	uni, err := libaudit.NewAuditClient(nil)
	if err != nil {
		hC16.Class("no-audit-socket")
		t.Skipf("NewAuditClient: %v", err)
	}
	defer uni.Close()
	multi, err := libaudit.NewMulticastAuditClient(nil)
	if err != nil {
		hC16.Class("no-multicast-audit-socket")
		t.Skipf("NewMulticastAuditClient: %v", err)
	}
	defer multi.Close()
	for round := 0; round < 5; round++ {
		c := C16Case{Kind: "realclients"}
		hC16.Eval()
		su, err := uni.GetStatus()
		if err != nil {
			t.Fatalf("VERIF-HARNESS GetStatus on the client NewAuditClient returns: %v", err) // (the suite's own precondition)
		}
		sm, err := multi.GetStatus()
		if err != nil {
			hC16.Fail(t, "TestC16", c, "GetStatus on the client NewMulticastAuditClient returns: %v (the same command on the client NewAuditClient returns works)", err)
		}
		su2, err := uni.GetStatus()
		if err != nil || su2.Enabled != su.Enabled || su2.Failure != su.Failure || su2.PID != su.PID || su2.RateLimit != su.RateLimit || su2.BacklogLimit != su.BacklogLimit {
			continue // somebody else changed the configuration in between: nothing to compare
		}
		if su.Enabled != sm.Enabled || su.Failure != sm.Failure || su.PID != sm.PID || su.RateLimit != sm.RateLimit || su.BacklogLimit != sm.BacklogLimit || su.FeatureBitmap != sm.FeatureBitmap {
			hC16.Fail(t, "TestC16", c, "the two clients decode the kernel's status differently: %+v and %+v", *su, *sm)
		}
		hC16.Class("status-from-both-real-clients")
	}
}
