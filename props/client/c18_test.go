package client

import (
	"bytes"
	"fmt"
	"os"
	"reflect"
	"runtime"
	"sort"
	"strings"
	"sync"
	"syscall"
	"testing"
	"time"
	"unsafe"

	libaudit "github.com/elastic/go-libaudit/v2"
	"pgregory.net/rapid"

	"verif/internal/hx"
	"verif/internal/simk"
)

// C18 — NetlinkClient.Send frames one correct netlink message with the returned
// sequence number (distinct and increasing, also across goroutines); Receive
// passes kernel datagrams through unchanged and refuses datagrams from any
// other sender or shorter than a header; the audit message parser rejects short
// buffers and otherwise returns everything after the 16-byte header.
//
// Real AF_NETLINK sockets are used. Requests go to NETLINK_ROUTE with message
// types above RTM_MAX: the kernel refuses them before looking at anything else
// and — this is the oracle — echoes the rejected request verbatim inside its
// NLMSG_ERROR reply, so the bytes that were on the wire are observed through the
// kernel, not through the library.

var hC18 = hx.New("C18", "real AF_NETLINK sockets. (send) rapid-generated requests to NETLINK_ROUTE: message types 1000..65535 (side-effect free: refused with EOPNOTSUPP), flags REQUEST | arbitrary other bits, payload lengths 0..8970 incl. non-multiples of 4, arbitrary content; the kernel's NLMSG_ERROR reply echoes the request verbatim: header length/type/flags/port id/sequence and payload are compared with what was sent and with the sequence Send returned. (concurrent) N goroutines x M sends on one client: returned sequences pairwise distinct, increasing per goroutine, and equal as a set to the sequences the kernel echoed. (foreign) datagrams of length 1..64 with arbitrary content from a second user-space netlink socket — unicast on NETLINK_ROUTE, multicast on NETLINK_USERSOCK — must give an error and no message, and a following kernel datagram still gets through. (parser) AuditClient.Receive over the simulated kernel with buffers of every length 0..64 and larger. Non-trivial = request with payload and extra flag bits, foreign datagram >= 16 bytes, concurrent batch, parser buffer != 16 bytes; distinct by hash of the case")

type C18Case struct {
	Kind    string `json:"kind"` // send, foreign, parser
	Type    uint16 `json:"type,omitempty"`
	Flags   uint16 `json:"flags,omitempty"`
	Payload []byte `json:"payload,omitempty"`
	Mcast   bool   `json:"mcast,omitempty"`
	Tight   *int   `json:"tight,omitempty"` // send: repeat on a fresh client whose read buffer is the reply size plus this many bytes
	// HdrSeq: what the caller left in the message's sequence field (a header copied from an earlier reply, a
	// reused struct): Send assigns the number whatever is there
	HdrSeq uint32 `json:"hdr_seq,omitempty"`
}

func (c C18Case) Describe() string {
	p := c.Payload
	if len(p) > 80 {
		p = p[:80]
	}
	return fmt.Sprintf("kind=%s type=%d flags=%#x mcast=%v header-seq-left-by-caller=%d payload(%d bytes)=%x", c.Kind, c.Type, c.Flags, c.Mcast, c.HdrSeq, len(c.Payload), p)
}

func genC18(t *rapid.T) C18Case {
	c := C18Case{Kind: rapid.SampledFrom([]string{"send", "send", "send", "foreign", "parser"}).Draw(t, "kind")}
	switch c.Kind {
	case "send":
		c.Type = rapid.OneOf(rapid.Uint16Range(1000, 65535), rapid.SampledFrom([]uint16{1000, 1001, 1300, 65535})).Draw(t, "type")
		c.Flags = syscall.NLM_F_REQUEST | rapid.OneOf(rapid.Just(uint16(0)), rapid.Just(uint16(syscall.NLM_F_ACK)), rapid.Uint16()).Draw(t, "flags")
		n := rapid.OneOf(rapid.IntRange(0, 64), rapid.IntRange(0, 8970), rapid.SampledFrom([]int{0, 1, 2, 3, 4, 5, 7, 1023, 4096, 8969, 8970})).Draw(t, "len")
		c.Payload = rapid.SliceOfN(rapid.Byte(), n, n).Draw(t, "payload")
		if rapid.IntRange(0, 2).Draw(t, "prefilledseq") == 0 {
			c.HdrSeq = rapid.OneOf(rapid.SampledFrom([]uint32{1, 2, 0xffffffff, 7}), rapid.Uint32()).Draw(t, "hdrseq")
		}
		if rapid.IntRange(0, 2).Draw(t, "tight") == 0 {
			slack := rapid.SampledFrom([]int{0, 0, 0, 1, 2, 3, 4, 16}).Draw(t, "slack")
			c.Tight = &slack
		}
	case "foreign":
		n := rapid.OneOf(rapid.IntRange(1, 64), rapid.SampledFrom([]int{1, 15, 16, 17, 36, 64})).Draw(t, "len")
		c.Payload = rapid.SliceOfN(rapid.Byte(), n, n).Draw(t, "bytes")
		if n >= 16 && rapid.Bool().Draw(t, "wellformed") {
			// looks exactly like a kernel ack: correct length, NLMSG_ERROR, port id 0
			copy(c.Payload, simk.Msg(syscall.NLMSG_ERROR, 0, 1, 0, make([]byte, n-16)))
		}
		c.Mcast = rapid.Bool().Draw(t, "mcast")
	default:
		n := rapid.OneOf(rapid.IntRange(0, 64), rapid.IntRange(0, 8986), rapid.SampledFrom([]int{0, 1, 15, 16, 17, 8985, 8986})).Draw(t, "len")
		c.Payload = rapid.SliceOfN(rapid.Byte(), n, n).Draw(t, "buf")
		if n >= 16 && rapid.Bool().Draw(t, "plausibleheader") {
			// a header as netlink peers write it: a control or an audit type, and a length word that agrees with
			// the buffer or does not (the kernel's audit records are known for the latter)
			typ := rapid.OneOf(rapid.SampledFrom([]uint16{2, 3, 1, 4, 0, 15, 16, 1000, 1300, 1305}), rapid.Uint16Range(0, 20), rapid.Uint16Range(1000, 2999)).Draw(t, "hdrtype")
			l := rapid.OneOf(rapid.SampledFrom([]int{n, 16, 20, n - 1, n + 1, 0, 17, n - 4}), rapid.IntRange(16, n)).Draw(t, "hdrlen")
			ne.PutUint32(c.Payload[0:], uint32(max(l, 0)))
			ne.PutUint16(c.Payload[4:], typ)
		}
	}
	return c
}

// shared sockets (created once per process)
var (
	sockOnce    sync.Once
	sockErr     error
	routeClient *libaudit.NetlinkClient
	routePort   uint32
	routeSpoof  int // second socket on NETLINK_ROUTE
	userClient  *libaudit.NetlinkClient
	userSpoof   int
)

func rawParser(b []byte) ([]syscall.NetlinkMessage, error) {
	return []syscall.NetlinkMessage{{Data: append([]byte(nil), b...)}}, nil
}

// firstRoute keeps one NETLINK_ROUTE socket open for the whole process: the kernel gives the process id as
// port id only to the first netlink socket of a protocol, every further socket gets another number — the
// clients under test must be such "further" sockets, or a port id confused with the process id goes unseen.
var firstRoute int = -1

func holdFirstRouteSocket() error {
	if firstRoute >= 0 {
		return nil
	}
	fd, err := syscall.Socket(syscall.AF_NETLINK, syscall.SOCK_RAW, syscall.NETLINK_ROUTE)
	if err != nil {
		return err
	}
	if err := syscall.Bind(fd, &syscall.SockaddrNetlink{Family: syscall.AF_NETLINK}); err != nil {
		return err
	}
	firstRoute = fd
	return nil
}

func setupSockets() {
	if sockErr = holdFirstRouteSocket(); sockErr != nil {
		return
	}
	routeClient, sockErr = libaudit.NewNetlinkClient(syscall.NETLINK_ROUTE, 0, make([]byte, 16384), nil)
	if sockErr != nil {
		return
	}
	// learn the port id from the kernel: the outer header of any reply is addressed to it
	if _, sockErr = routeClient.Send(syscall.NetlinkMessage{Header: syscall.NlMsghdr{Type: 2000, Flags: syscall.NLM_F_REQUEST}}); sockErr != nil {
		return
	}
	var msgs []syscall.NetlinkMessage
	if msgs, sockErr = routeClient.Receive(false, rawParser); sockErr != nil {
		return
	}
	routePort = ne.Uint32(msgs[0].Data[12:])
	if routePort == uint32(os.Getpid()) {
		hC18.Class("client-port-id-equals-process-id") // unexpected: the held socket should have taken it
	} else {
		hC18.Class("client-port-id-differs-from-process-id")
	}
	if routeSpoof, sockErr = syscall.Socket(syscall.AF_NETLINK, syscall.SOCK_RAW, syscall.NETLINK_ROUTE); sockErr != nil {
		return
	}
	if sockErr = syscall.Bind(routeSpoof, &syscall.SockaddrNetlink{Family: syscall.AF_NETLINK}); sockErr != nil {
		return
	}
	if userClient, sockErr = libaudit.NewNetlinkClient(syscall.NETLINK_USERSOCK, 1, make([]byte, 16384), nil); sockErr != nil {
		return
	}
	if userSpoof, sockErr = syscall.Socket(syscall.AF_NETLINK, syscall.SOCK_RAW, syscall.NETLINK_USERSOCK); sockErr != nil {
		return
	}
	sockErr = syscall.Bind(userSpoof, &syscall.SockaddrNetlink{Family: syscall.AF_NETLINK})
}

// checkEcho verifies a kernel NLMSG_ERROR datagram against the request.
func checkEcho(d []byte, seq uint32, typ, flags uint16, payload []byte) error {
	return checkEchoPort(d, seq, typ, flags, payload, routePort)
}

// checkEchoPort: wantPort 0 = the port id is only known from the kernel's own (outer) header.
func checkEchoPort(d []byte, seq uint32, typ, flags uint16, payload []byte, wantPort uint32) error {
	return checkEchoErrno(d, seq, typ, flags, payload, wantPort, syscall.EOPNOTSUPP)
}

func checkEchoErrno(d []byte, seq uint32, typ, flags uint16, payload []byte, wantPort uint32, wantErrno syscall.Errno) error {
	if len(d) < 36 {
		return fmt.Errorf("kernel reply of %d bytes is too short for an error message with the echoed header", len(d))
	}
	if t := ne.Uint16(d[4:]); t != syscall.NLMSG_ERROR {
		return fmt.Errorf("kernel reply has type %d, want NLMSG_ERROR", t)
	}
	if s := ne.Uint32(d[8:]); s != seq {
		return fmt.Errorf("kernel reply carries sequence %d, Send returned %d", s, seq)
	}
	port := ne.Uint32(d[12:])
	if wantPort != 0 && port != wantPort {
		return fmt.Errorf("kernel reply addressed to port %d, the socket's port id is %d", port, wantPort)
	}
	if e := int32(ne.Uint32(d[16:])); e != -int32(wantErrno) {
		return fmt.Errorf("kernel answered errno %d, want %d (the harness only sends message types the kernel refuses before looking at anything else)", -e, int(wantErrno))
	}
	// the echoed request
	h := d[20:36]
	if l := ne.Uint32(h[0:]); l != uint32(16+len(payload)) {
		return fmt.Errorf("nlmsg_len on the wire = %d, want %d (16-byte header + %d bytes of payload)", l, 16+len(payload), len(payload))
	}
	if t := ne.Uint16(h[4:]); t != typ {
		return fmt.Errorf("nlmsg_type on the wire = %d, sent %d", t, typ)
	}
	if f := ne.Uint16(h[6:]); f != flags {
		return fmt.Errorf("nlmsg_flags on the wire = %#x, sent %#x", f, flags)
	}
	if s := ne.Uint32(h[8:]); s != seq {
		return fmt.Errorf("nlmsg_seq on the wire = %d, Send returned %d", s, seq)
	}
	if p := ne.Uint32(h[12:]); p != port {
		return fmt.Errorf("nlmsg_pid on the wire = %d, the socket's port id is %d", p, port)
	}
	echo := d[36:]
	if len(echo) < len(payload) || !bytes.Equal(echo[:len(payload)], payload) {
		return fmt.Errorf("payload on the wire differs from the caller's bytes (%d bytes echoed, %d sent)", len(echo), len(payload))
	}
	if len(echo)-len(payload) > 3 {
		return fmt.Errorf("%d bytes echoed for a payload of %d bytes: more than one message was written", len(echo), len(payload))
	}
	return nil
}

var lastSeq uint32
var sockMu sync.Mutex

func propC18(c C18Case) error {
	switch c.Kind {
	case "parser":
		k := simk.New(1)
		k.Push(c.Payload)
		cl := &libaudit.AuditClient{Netlink: k}
		m, err := cl.Receive(false)
		what := fmt.Sprintf("AuditClient.Receive of a %d-byte buffer", len(c.Payload))
		if (m == nil) == (err == nil) {
			return fmt.Errorf("%s: returned (msg nil=%v, err=%v)", what, m == nil, err)
		}
		if len(c.Payload) < 16 {
			if err == nil {
				return fmt.Errorf("%s: accepted a buffer shorter than a netlink header", what)
			}
			hC18.Class("parser-short")
		} else {
			if err != nil {
				return fmt.Errorf("%s: %v", what, err)
			}
			if uint16(m.Type) != ne.Uint16(c.Payload[4:]) {
				return fmt.Errorf("%s: type %d, the header word is %d", what, m.Type, ne.Uint16(c.Payload[4:]))
			}
			if !bytes.Equal(m.Data, c.Payload[16:]) {
				return fmt.Errorf("%s: data of %d bytes, want everything after the 16-byte header (%d bytes)", what, len(m.Data), len(c.Payload)-16)
			}
			hC18.Class("parser-ok")
		}
		if len(c.Payload) != 16 {
			hC18.NonTrivial(hx.FP("parser", c.Payload), c.Describe)
		}
		return nil
	}
	sockOnce.Do(setupSockets)
	if sockErr != nil {
		hC18.Class("no-netlink-sockets")
		return nil // reported as undecided by the driver (required classes stay empty)
	}
	sockMu.Lock()
	defer sockMu.Unlock()
	switch c.Kind {
	case "send":
		seq, err := routeClient.Send(syscall.NetlinkMessage{Header: syscall.NlMsghdr{Type: c.Type, Flags: c.Flags, Seq: c.HdrSeq}, Data: c.Payload})
		if err != nil {
			return fmt.Errorf("Send(type %d, flags %#x, %d bytes): %v", c.Type, c.Flags, len(c.Payload), err)
		}
		if c.HdrSeq != 0 {
			hC18.Class("send-with-prefilled-sequence-field")
		}
		if lastSeq != 0 && seq <= lastSeq && !(lastSeq > 1<<31 && seq < 1<<31) {
			return fmt.Errorf("Send returned sequence %d after %d: not increasing", seq, lastSeq)
		}
		lastSeq = seq
		msgs, err := routeClient.Receive(false, rawParser)
		if err != nil {
			return fmt.Errorf("Receive of the kernel's reply to sequence %d: %v", seq, err)
		}
		if err := checkEcho(msgs[0].Data, seq, c.Type, c.Flags, c.Payload); err != nil {
			return fmt.Errorf("Send(type %d, flags %#x, %d bytes) returned sequence %d: %v", c.Type, c.Flags, len(c.Payload), seq, err)
		}
		hC18.Class("send-echoed")
		if c.Tight != nil {
			// the same request on a client whose read buffer holds the kernel's reply with *c.Tight bytes to spare
			// (the reply size is the one just observed: it depends on the request length only)
			size := len(msgs[0].Data) + *c.Tight
			what := fmt.Sprintf("client with a %d-byte read buffer, kernel reply of %d bytes to Send(type %d, flags %#x, %d bytes)", size, len(msgs[0].Data), c.Type, c.Flags, len(c.Payload))
			tc, err := libaudit.NewNetlinkClient(syscall.NETLINK_ROUTE, 0, make([]byte, size), nil)
			if err != nil {
				return fmt.Errorf("%s: NewNetlinkClient: %v", what, err)
			}
			defer tc.Close()
			tseq, err := tc.Send(syscall.NetlinkMessage{Header: syscall.NlMsghdr{Type: c.Type, Flags: c.Flags}, Data: c.Payload})
			if err != nil {
				return fmt.Errorf("%s: Send: %v", what, err)
			}
			tm, err := tc.Receive(false, rawParser)
			if err != nil {
				return fmt.Errorf("%s: Receive refused a complete kernel datagram: %v", what, err)
			}
			if len(tm) != 1 || len(tm[0].Data) != len(msgs[0].Data) {
				return fmt.Errorf("%s: Receive handed %d bytes to the parser", what, len(tm[0].Data))
			}
			if err := checkEchoPort(tm[0].Data, tseq, c.Type, c.Flags, c.Payload, 0); err != nil {
				return fmt.Errorf("%s: %v", what, err)
			}
			if *c.Tight == 0 {
				hC18.Class("send-reply-fills-read-buffer-exactly")
			} else {
				hC18.Class("send-reply-nearly-fills-read-buffer")
			}
		}
		if len(c.Payload) > 0 && c.Flags&^(syscall.NLM_F_REQUEST|syscall.NLM_F_ACK) != 0 {
			hC18.NonTrivial(hx.FP("send", c.Type, c.Flags, c.Payload), c.Describe)
		}
	case "foreign":
		cl, spoof := routeClient, routeSpoof
		to := &syscall.SockaddrNetlink{Family: syscall.AF_NETLINK, Pid: routePort}
		if c.Mcast {
			cl, spoof = userClient, userSpoof
			to = &syscall.SockaddrNetlink{Family: syscall.AF_NETLINK, Groups: 1}
		}
		// a multicast send reports ECONNREFUSED to the sender although it is delivered; ignore the result
		_ = syscall.Sendto(spoof, c.Payload, 0, to)
		var msgs []syscall.NetlinkMessage
		var err error
		for try := 0; try < 200; try++ {
			msgs, err = cl.Receive(true, rawParser)
			if err == syscall.EAGAIN {
				time.Sleep(50 * time.Microsecond)
				continue
			}
			break
		}
		if err == syscall.EAGAIN {
			hC18.Class("foreign-not-delivered")
			return nil
		}
		if err == nil || msgs != nil {
			return fmt.Errorf("a %d-byte datagram from a user-space netlink socket (mcast=%v) was returned as data: %x", len(c.Payload), c.Mcast, c.Payload)
		}
		if !c.Mcast {
			// the kernel still gets through afterwards
			seq, err := routeClient.Send(syscall.NetlinkMessage{Header: syscall.NlMsghdr{Type: 3000, Flags: syscall.NLM_F_REQUEST}})
			if err != nil {
				return fmt.Errorf("Send after a foreign datagram: %v", err)
			}
			lastSeq = seq
			m, err := routeClient.Receive(false, rawParser)
			if err != nil {
				return fmt.Errorf("kernel reply after a foreign datagram was refused: %v", err)
			}
			if err := checkEcho(m[0].Data, seq, 3000, syscall.NLM_F_REQUEST, nil); err != nil {
				return fmt.Errorf("after a foreign datagram: %v", err)
			}
		}
		if len(c.Payload) >= 16 {
			hC18.Class("foreign-header-sized-refused")
			hC18.NonTrivial(hx.FP("foreign", c.Mcast, c.Payload), c.Describe)
		} else {
			hC18.Class("foreign-short-refused")
		}
	}
	return nil
}

func TestC18Regress(t *testing.T) { hx.Regress(t, hC18, "TestC18", propC18) }

func TestC18(t *testing.T) { hx.Check(t, hC18, "TestC18", genC18, propC18) }

// TestC18Lengths: every payload length 0..64 and the lengths around 8970, and
// every parser buffer length 0..64.
func TestC18Lengths(t *testing.T) {
	var cases []C18Case
	for n := 0; n <= 64; n++ {
		p := make([]byte, n)
		for i := range p {
			p[i] = byte(0xC0 + i)
		}
		cases = append(cases, C18Case{Kind: "send", Type: uint16(1000 + n), Flags: syscall.NLM_F_REQUEST | 0x8000, Payload: p},
			C18Case{Kind: "parser", Payload: p})
		if n > 0 {
			cases = append(cases, C18Case{Kind: "foreign", Payload: p}, C18Case{Kind: "foreign", Payload: p, Mcast: true})
		}
	}
	for _, n := range []int{8960, 8967, 8968, 8969, 8970} {
		p := bytes.Repeat([]byte{0x5A}, n)
		cases = append(cases, C18Case{Kind: "send", Type: 65535, Flags: syscall.NLM_F_REQUEST | syscall.NLM_F_ACK, Payload: p})
	}
	for _, c := range cases {
		hC18.Eval()
		if err := hx.Guard(propC18, c); err != nil {
			hC18.Fail(t, "TestC18", c, "%v", err)
		}
	}
}

// TestC18Concurrent: N goroutines x M sends on one client (run under -race in
// the stress stage): returned sequences are pairwise distinct, increasing per
// goroutine, and exactly the sequences the kernel saw on the wire.
func TestC18Concurrent(t *testing.T) {
	rounds := hx.EnvInt("VERIF_N", 200)
	if err := holdFirstRouteSocket(); err != nil {
		t.Skipf("no netlink sockets: %v", err)
	}
	for r := 0; r < rounds; r++ {
		cl, err := libaudit.NewNetlinkClient(syscall.NETLINK_ROUTE, 0, make([]byte, 16384), nil)
		if err != nil {
			t.Skipf("no netlink sockets: %v", err)
		}
		g := 2 + r%7
		m := 5 + r%8
		if r%2 == 1 {
			// rounds with a failing sender: fewer goroutines that keep sending for longer, so that successful
			// sends happen before, between and after the failing ones (the reply queue holds ~150 datagrams)
			g, m = 3, 35
		}
		hC18.BeginLimit("TestC18Concurrent", C18Case{Kind: "concurrent", Type: uint16(g), Flags: uint16(m)}, 120*time.Second) // a round that never returns is a deadlock
		ret := make([][]uint32, g)
		sendErrs := make([]error, g)
		var wg sync.WaitGroup
		start := make(chan struct{})
		for i := 0; i < g; i++ {
			wg.Add(1)
			go func(i int) {
				defer wg.Done()
				<-start
				for j := 0; j < m; j++ {
					p := []byte{byte(i), byte(j), 0xEE}
					seq, err := cl.Send(syscall.NetlinkMessage{Header: syscall.NlMsghdr{Type: uint16(2000 + i), Flags: syscall.NLM_F_REQUEST}, Data: p})
					if err != nil {
						sendErrs[i] = fmt.Errorf("send %d of goroutine %d (3 bytes of payload): %v", j, i, err)
						return
					}
					ret[i] = append(ret[i], seq)
				}
			}(i)
		}
		// fault injection: one more goroutine whose sends fail (a datagram larger than the socket's send
		// buffer is refused with EMSGSIZE before anything reaches the wire) while the others succeed
		failed := 0
		if r%2 == 1 {
			wg.Add(1)
			go func() {
				defer wg.Done()
				big := make([]byte, 230*1024) // just above the default send buffer
				<-start
				for j := 0; j < 40; j++ {
					if _, err := cl.Send(syscall.NetlinkMessage{Header: syscall.NlMsghdr{Type: 2999, Flags: syscall.NLM_F_REQUEST}, Data: big}); err != nil {
						failed++
					}
				}
			}()
		}
		close(start)
		wg.Wait()
		hC18.End()
		hC18.Eval()
		if failed > 0 {
			hC18.Class("concurrent-batch-with-failing-sends")
		}
		c := C18Case{Kind: "concurrent", Type: uint16(g), Flags: uint16(m)}
		for _, e := range sendErrs {
			if e != nil {
				// nothing makes the kernel refuse a 19-byte request on this socket (its replies queue on the
				// receiving side): the refusal is about what the client put on the wire
				hC18.Fail(t, "TestC18Concurrent", c, "%d goroutines x %d sends (failing 230 KB sender: %v): %v", g, m, r%2 == 1, e)
			}
		}
		seen := map[uint32]bool{}
		var all []uint32
		for i := range ret {
			for j, s := range ret[i] {
				if seen[s] {
					hC18.Fail(t, "TestC18Concurrent", c, "%d goroutines x %d sends: sequence %d was returned twice", g, m, s)
				}
				seen[s] = true
				all = append(all, s)
				if j > 0 && s <= ret[i][j-1] {
					hC18.Fail(t, "TestC18Concurrent", c, "goroutine %d got sequence %d after %d: not increasing", i, s, ret[i][j-1])
				}
			}
		}
		// what the kernel saw
		wire := map[uint32]int{}
		for n := 0; n < g*m; n++ {
			// the replies are queued already (the kernel answers inside sendto); never block for one that is missing
			var msgs []syscall.NetlinkMessage
			var err error
			for deadline := time.Now().Add(10 * time.Second); ; {
				msgs, err = cl.Receive(true, rawParser)
				if err != syscall.EAGAIN || time.Now().After(deadline) {
					break
				}
				time.Sleep(200 * time.Microsecond)
			}
			if err != nil {
				hC18.Fail(t, "TestC18Concurrent", c, "Receive of reply %d of %d: %v", n, g*m, err)
			}
			d := msgs[0].Data
			if len(d) < 39 {
				hC18.Fail(t, "TestC18Concurrent", c, "short kernel reply (%d bytes)", len(d))
			}
			if port, hdr := ne.Uint32(d[12:]), ne.Uint32(d[32:]); port != hdr {
				hC18.Fail(t, "TestC18Concurrent", c, "nlmsg_pid on the wire = %d, the socket's port id is %d", hdr, port)
			}
			outer, inner := ne.Uint32(d[8:]), ne.Uint32(d[28:])
			if outer != inner {
				hC18.Fail(t, "TestC18Concurrent", c, "kernel reply sequence %d but echoed request sequence %d", outer, inner)
			}
			// the payload identifies the sender: its sequence must be one that goroutine was given
			gi, gj := int(d[36]), int(d[37])
			if gi >= g || gj >= m || ret[gi][gj] != inner {
				hC18.Fail(t, "TestC18Concurrent", c, "request %d of goroutine %d went out with sequence %d, Send returned %v", gj, gi, inner, ret[gi])
			}
			wire[inner]++
		}
		sort.Slice(all, func(a, b int) bool { return all[a] < all[b] })
		for _, s := range all {
			if wire[s] != 1 {
				hC18.Fail(t, "TestC18Concurrent", c, "sequence %d returned by Send was seen %d times on the wire", s, wire[s])
			}
		}
		cl.Close()
		hC18.Class("concurrent-batch")
		hC18.NonTrivial(hx.FP("concurrent", r), func() string { return fmt.Sprintf("%d goroutines x %d sends on one client", g, m) })
	}
}

// TestC18Multicast: kernel datagrams that were not caused by the client's own requests. In a private network
// namespace (one locked OS thread that is thrown away afterwards; nothing outside it changes) a raw socket adds
// and removes addresses on the loopback device; the kernel multicasts RTM_NEWADDR / RTM_DELADDR notifications,
// whose nlmsg_pid is the port id of the socket that asked. A client of the library and a raw socket both
// listen to the group and get copies of the same datagram: what Receive hands to the parser must be
// byte-identical to what the raw socket read.
func TestC18Multicast(t *testing.T) {
	rounds := hx.EnvInt("VERIF_N", 200)
	type result struct {
		c   *C18Case
		err error
	}
	res := make(chan result, 1)
	go func() {
		runtime.LockOSThread() // never unlocked: the thread that lives in the private namespace ends with the goroutine
		c, err := multicastRounds(t, rounds)
		res <- result{c, err} // (t.Fatal must not be called from here: it would end this goroutine, not the test)
	}()
	r := <-res
	if r.c != nil {
		hC18.Fail(t, "TestC18Multicast", *r.c, "%v", r.err)
	}
	if r.err != nil {
		t.Fatalf("VERIF-HARNESS harness problem (not a finding about the library): %v", r.err) // the stage is undecided
	}
}

const rtmgrpIPv4IfAddr = 0x10 // RTMGRP_IPV4_IFADDR

func multicastRounds(t *testing.T, rounds int) (*C18Case, error) {
	if err := syscall.Unshare(syscall.CLONE_NEWNET); err != nil {
		hC18.Class("no-private-network-namespace")
		t.Logf("unshare(CLONE_NEWNET): %v — stage skipped", err)
		return nil, nil
	}
	raw := func(groups uint32) (int, error) {
		fd, err := syscall.Socket(syscall.AF_NETLINK, syscall.SOCK_RAW, syscall.NETLINK_ROUTE)
		if err != nil {
			return -1, err
		}
		return fd, syscall.Bind(fd, &syscall.SockaddrNetlink{Family: syscall.AF_NETLINK, Groups: groups})
	}
	req, err := raw(0)
	if err != nil {
		return nil, fmt.Errorf("requester socket: %v", err)
	}
	defer syscall.Close(req)
	ref, err := raw(rtmgrpIPv4IfAddr)
	if err != nil {
		return nil, fmt.Errorf("reference listener: %v", err)
	}
	defer syscall.Close(ref)
	cl, err := libaudit.NewNetlinkClient(syscall.NETLINK_ROUTE, rtmgrpIPv4IfAddr, make([]byte, 16384), nil)
	if err != nil {
		return nil, fmt.Errorf("NewNetlinkClient: %v", err)
	}
	defer cl.Close()
	recvRaw := func(fd int) ([]byte, error) {
		buf := make([]byte, 16384)
		for try := 0; try < 2000; try++ {
			n, _, err := syscall.Recvfrom(fd, buf, syscall.MSG_DONTWAIT)
			if err == syscall.EAGAIN || err == syscall.EINTR {
				time.Sleep(100 * time.Microsecond)
				continue
			}
			return buf[:max(n, 0)], err
		}
		return nil, syscall.EAGAIN
	}
	for r := 0; r < rounds; r++ {
		// the client that listens to the group also sends: its request goes to the kernel and to nobody else (the
		// reference listener in the same group must not see a copy of it), and the kernel's refusal echoes it
		{
			body := bytes.Repeat([]byte{byte(0xA0 + r%16)}, 1+r*7%90)
			typ := uint16(1000 + r%500)
			c := C18Case{Kind: "multicast-client-sends", Type: typ, Payload: body}
			hC18.Eval()
			seq, err := cl.Send(syscall.NetlinkMessage{Header: syscall.NlMsghdr{Type: typ, Flags: syscall.NLM_F_REQUEST}, Data: body})
			if err != nil {
				return &c, fmt.Errorf("Send on a client that is member of multicast group %#x: %v", rtmgrpIPv4IfAddr, err)
			}
			buf := make([]byte, 16384)
			for {
				n, from, err := syscall.Recvfrom(ref, buf, syscall.MSG_DONTWAIT)
				if err != nil {
					break
				}
				if a, ok := from.(*syscall.SockaddrNetlink); ok && a.Pid != 0 {
					return &c, fmt.Errorf("another socket in multicast group %#x received a datagram from port %d (% x) when the client sent its request (sequence %d): Send puts one message on the wire, for the kernel", rtmgrpIPv4IfAddr, a.Pid, buf[:min(n, 64)], seq)
				}
			}
			var got []syscall.NetlinkMessage
			for try := 0; try < 2000; try++ {
				got, err = cl.Receive(true, syscall.ParseNetlinkMessage)
				if err == syscall.EAGAIN || err == syscall.EINTR {
					time.Sleep(100 * time.Microsecond)
					continue
				}
				break
			}
			if err != nil || len(got) != 1 || got[0].Header.Type != syscall.NLMSG_ERROR || len(got[0].Data) < 20 {
				return &c, fmt.Errorf("the kernel's refusal of request type %d did not come back: %v %+v", typ, err, got)
			}
			if e := int32(ne.Uint32(got[0].Data)); e != -int32(syscall.EOPNOTSUPP) || ne.Uint16(got[0].Data[8:]) != typ || ne.Uint32(got[0].Data[12:]) != seq {
				return &c, fmt.Errorf("the kernel answered request type %d sequence %d with errno %d, echoed header % x", typ, seq, e, got[0].Data[4:20])
			}
			hC18.Class("multicast-member-sends-to-the-kernel-only")
		}
		addr := []byte{10, byte(r >> 8), byte(r), byte(1 + r%250)}
		prefix := byte(8 + r%25)
		payload := []byte{syscall.AF_INET, prefix, 0, 0, 1, 0, 0, 0} // ifaddrmsg: family, prefixlen, flags, scope, index of lo
		for _, a := range []uint16{syscall.IFA_LOCAL, syscall.IFA_ADDRESS} {
			payload = append(payload, 8, 0, byte(a), 0)
			payload = append(payload, addr...)
		}
		for step, typ := range []uint16{syscall.RTM_NEWADDR, syscall.RTM_DELADDR} {
			c := C18Case{Kind: "multicast", Type: typ, Payload: payload}
			hC18.Eval()
			flags := uint16(syscall.NLM_F_REQUEST | syscall.NLM_F_ACK)
			if typ == syscall.RTM_NEWADDR {
				flags |= syscall.NLM_F_CREATE | syscall.NLM_F_EXCL
			}
			if err := syscall.Sendto(req, simk.Msg(typ, flags, uint32(1000+2*r+step), 0, payload), 0, &syscall.SockaddrNetlink{Family: syscall.AF_NETLINK}); err != nil {
				return nil, fmt.Errorf("request %d: %v", typ, err)
			}
			ack, err := recvRaw(req)
			if err != nil || len(ack) < 20 || ne.Uint16(ack[4:]) != syscall.NLMSG_ERROR || ne.Uint32(ack[16:]) != 0 {
				return nil, fmt.Errorf("the kernel did not acknowledge request %d for %v/%d: % x (%v)", typ, addr, prefix, ack, err)
			}
			want, err := recvRaw(ref)
			if err != nil {
				return nil, fmt.Errorf("reference listener: no notification for request %d: %v", typ, err)
			}
			// alternately through the raw parser (the bytes) and the standard one (type and payload per message)
			parser, std := libaudit.NetlinkParser(rawParser), (r+step)%2 == 1
			if std {
				parser = syscall.ParseNetlinkMessage
			}
			var got []syscall.NetlinkMessage
			for try := 0; try < 2000; try++ {
				got, err = cl.Receive(true, parser)
				if err == syscall.EAGAIN || err == syscall.EINTR {
					time.Sleep(100 * time.Microsecond)
					continue
				}
				break
			}
			what := fmt.Sprintf("kernel notification type %d (%d bytes, nlmsg_pid %d = the port id of the socket that asked) multicast to the client", ne.Uint16(want[4:]), len(want), ne.Uint32(want[12:]))
			if err != nil {
				return &c, fmt.Errorf("%s: Receive returned an error for a datagram sent by the kernel: %v", what, err)
			}
			if std {
				ref, perr := syscall.ParseNetlinkMessage(want)
				if perr != nil || len(ref) != len(got) {
					return &c, fmt.Errorf("%s: Receive returned %d messages, the datagram holds %d (%v)", what, len(got), len(ref), perr)
				}
				for i := range ref {
					if got[i].Header != ref[i].Header || !bytes.Equal(got[i].Data, ref[i].Data) {
						return &c, fmt.Errorf("%s: message %d came back as header %+v payload % x, the datagram has header %+v payload % x", what, i, got[i].Header, got[i].Data, ref[i].Header, ref[i].Data)
					}
				}
			} else if len(got) != 1 || !bytes.Equal(got[0].Data, want) {
				return &c, fmt.Errorf("%s: Receive handed the parser % x, the datagram is % x", what, got, want)
			}
			// and through the standard parser: type and payload
			hC18.Class("multicast-notification-received")
			if ne.Uint32(want[12:]) != 0 {
				hC18.NonTrivial(hx.FP("multicast", r, step), func() string { return what })
			}
		}
	}
	return nil, nil
}

// TestC18AuditClientBuffer: the client as NewAuditClient sets it up (its own read buffer), against the kernel's
// audit socket. A request of a message type the audit subsystem does not know (1098) is refused with EINVAL
// before anything else is looked at, and the NLMSG_ERROR reply echoes it: replies whose data portion runs up to
// the documented maximum (AuditMessageMaxLength) must come back whole.
func TestC18AuditClientBuffer(t *testing.T) {
	cl, err := libaudit.NewAuditClient(nil)
	if err != nil {
		hC18.Class("no-audit-socket")
		t.Skipf("NewAuditClient: %v", err)
	}
	defer cl.Close()
	for _, n := range []int{0, 1, 100, 4000, 8900, 8930, 8932, 8936, 8940, 8944, 8947, 8948} {
		c := C18Case{Kind: "auditclient", Type: 1098, Flags: syscall.NLM_F_REQUEST | syscall.NLM_F_ACK, Payload: bytes.Repeat([]byte{0xA0 | byte(n&15)}, n)}
		for i := range c.Payload {
			c.Payload[i] ^= byte(i * 7)
		}
		hC18.Eval()
		seq, err := cl.Netlink.Send(syscall.NetlinkMessage{Header: syscall.NlMsghdr{Type: c.Type, Flags: c.Flags}, Data: c.Payload})
		if err != nil {
			hC18.Fail(t, "TestC18AuditClientBuffer", c, "Send of %d bytes on the audit socket: %v", n, err)
		}
		var m *libaudit.RawAuditMessage
		for try := 0; try < 2000; try++ {
			m, err = cl.Receive(true)
			if err == syscall.EAGAIN || err == syscall.EINTR {
				time.Sleep(100 * time.Microsecond)
				continue
			}
			break
		}
		want := 20 + (n+3)&^3 // errno, the echoed header, the echoed payload padded to 4 bytes
		what := fmt.Sprintf("kernel reply with a data portion of %d bytes (maximum %d) to a %d-byte request, read through the client NewAuditClient returns", want, libaudit.AuditMessageMaxLength, n)
		if err != nil || m == nil {
			hC18.Fail(t, "TestC18AuditClientBuffer", c, "%s: %v", what, err)
		}
		if m.Type != syscall.NLMSG_ERROR || len(m.Data) < 20 || ne.Uint32(m.Data[12:]) != seq {
			hC18.Fail(t, "TestC18AuditClientBuffer", c, "%s: got type %d with %d bytes (request sequence %d)", what, m.Type, len(m.Data), seq)
		}
		if len(m.Data) != want || !bytes.Equal(m.Data[20:20+n], c.Payload) {
			hC18.Fail(t, "TestC18AuditClientBuffer", c, "%s: Receive returned %d bytes of data; the echoed payload is intact: %v", what, len(m.Data), len(m.Data) >= 20+n && bytes.Equal(m.Data[20:20+n], c.Payload))
		}
		hC18.Class("audit-client-own-buffer")
		if want > 8900 {
			hC18.NonTrivial(hx.FP("auditclientbuffer", n), func() string { return what })
		}
	}
}

// TestC18FlagSweep: every value of nlmsg_flags, zero and every value without NLM_F_REQUEST among them. The
// route socket only echoes requests; the audit socket refuses a message of the unknown type 1098 with EINVAL
// whatever its flags are, and the NLMSG_ERROR reply echoes the header as it was on the wire.
func TestC18FlagSweep(t *testing.T) {
	cl, err := libaudit.NewNetlinkClient(syscall.NETLINK_AUDIT, 0, make([]byte, 8192), nil)
	if err != nil {
		hC18.Class("no-audit-socket")
		t.Skipf("NewNetlinkClient(NETLINK_AUDIT): %v", err)
	}
	defer cl.Close()
	step := 1
	if !hx.Thorough() {
		step = 7 // every seventh value and every value below 1024
	}
	for f := 0; f < 65536; f++ {
		if f >= 1024 && f%step != 0 && f&(f-1) != 0 {
			continue
		}
		c := C18Case{Kind: "flagsweep", Type: 1098, Flags: uint16(f), Payload: []byte{byte(f), byte(f >> 8), 0xC3}}
		hC18.Eval()
		seq, err := cl.Send(syscall.NetlinkMessage{Header: syscall.NlMsghdr{Type: c.Type, Flags: c.Flags}, Data: c.Payload})
		if err != nil {
			hC18.Fail(t, "TestC18FlagSweep", c, "Send with flags %#x on the audit socket: %v", f, err)
		}
		var msgs []syscall.NetlinkMessage
		for try := 0; try < 20000; try++ {
			msgs, err = cl.Receive(true, rawParser)
			if err == syscall.EAGAIN || err == syscall.EINTR {
				time.Sleep(50 * time.Microsecond)
				continue
			}
			break
		}
		if err != nil || len(msgs) != 1 {
			hC18.Fail(t, "TestC18FlagSweep", c, "no NLMSG_ERROR reply to a message of type 1098 with flags %#x: %v %+v", f, err, msgs)
		}
		if err := checkEchoErrno(msgs[0].Data, seq, c.Type, c.Flags, c.Payload, 0, syscall.EINVAL); err != nil {
			hC18.Fail(t, "TestC18FlagSweep", c, "Send(type 1098, flags %#x) returned sequence %d: %v", f, seq, err)
		}
		if f&syscall.NLM_F_REQUEST == 0 {
			hC18.Class("flags-without-request-bit-echoed")
		}
	}
	hC18.Class("flag-sweep")
}

// TestC18Uevent: kernel datagrams of lengths that are no multiple of four. The kernel's device-event broadcasts
// (NETLINK_KOBJECT_UEVENT, group 1) are plain text, not netlink messages, and as long as their content; a
// synthetic "change" event for the loopback device (what `udevadm trigger` does; nothing changes) with
// arguments of varying length is requested through sysfs. A raw socket and a client of the library listen to
// the group from before the first event: what Receive hands to the parser must be byte for byte what the raw
// socket read, datagram after datagram.
func TestC18Uevent(t *testing.T) {
	rounds := hx.EnvInt("VERIF_N", 60)
	ref, err := syscall.Socket(syscall.AF_NETLINK, syscall.SOCK_RAW, syscall.NETLINK_KOBJECT_UEVENT)
	if err == nil {
		err = syscall.Bind(ref, &syscall.SockaddrNetlink{Family: syscall.AF_NETLINK, Groups: 1})
	}
	if err != nil {
		hC18.Class("no-uevent-socket")
		t.Skipf("uevent socket: %v", err)
	}
	defer syscall.Close(ref)
	cl, err := libaudit.NewNetlinkClient(syscall.NETLINK_KOBJECT_UEVENT, 1, make([]byte, 16384), nil)
	if err != nil {
		t.Skipf("NewNetlinkClient: %v", err)
	}
	defer cl.Close()
	buf := make([]byte, 16384)
	for r := 0; r < rounds; r++ {
		req := fmt.Sprintf("change %08x-0000-4000-8000-%012x V=%s", r, r, strings.Repeat("v", 1+r%9))
		if err := os.WriteFile("/sys/class/net/lo/uevent", []byte(req), 0); err != nil {
			hC18.Class("no-synthetic-uevents")
			t.Skipf("cannot request a synthetic uevent: %v", err)
		}
		hC18.Eval()
		var n int
		for try := 0; try < 5000; try++ {
			n, _, err = syscall.Recvfrom(ref, buf, syscall.MSG_DONTWAIT)
			if err == syscall.EAGAIN || err == syscall.EINTR {
				time.Sleep(100 * time.Microsecond)
				continue
			}
			break
		}
		if err != nil {
			t.Skipf("no uevent arrived: %v", err)
		}
		want := append([]byte(nil), buf[:n]...)
		c := C18Case{Kind: "uevent", Payload: want}
		var got []syscall.NetlinkMessage
		for try := 0; try < 5000; try++ {
			got, err = cl.Receive(true, rawParser)
			if err == syscall.EAGAIN || err == syscall.EINTR {
				time.Sleep(100 * time.Microsecond)
				continue
			}
			break
		}
		what := fmt.Sprintf("kernel datagram of %d bytes (%d modulo 4) broadcast to the client", len(want), len(want)%4)
		if err != nil {
			hC18.Fail(t, "TestC18Uevent", c, "%s: Receive returned an error: %v", what, err)
		}
		if len(got) != 1 || !bytes.Equal(got[0].Data, want) {
			hC18.Fail(t, "TestC18Uevent", c, "%s: Receive handed the parser %d bytes %q, the datagram is %q", what, len(got[0].Data), got[0].Data, want)
		}
		hC18.Class("kernel-datagram-received")
		if len(want)%4 != 0 {
			hC18.Class("kernel-datagram-of-unaligned-length")
			hC18.NonTrivial(hx.FP("uevent", len(want)), func() string { return what })
		}
	}
}

// TestC18SequenceWrap: the calls around the 2^32-th Send of a client. Nobody can wait for four billion sends, so
// the client's counter (the unexported field netlink.go:66 names "seq") is set just below the wrap through
// reflection — the only thing this stage does that a caller could not. The sequence numbers Send returns stay
// pairwise distinct across the wrap, each is the one the kernel saw, and each comes after the last (modulo
// 2^32).
func TestC18SequenceWrap(t *testing.T) {
	for _, back := range []uint32{1, 2, 3, 5} {
		cl, err := libaudit.NewNetlinkClient(syscall.NETLINK_ROUTE, 0, make([]byte, 8192), nil)
		if err != nil {
			t.Skipf("NewNetlinkClient: %v", err)
		}
		f := reflect.ValueOf(cl).Elem().FieldByName("seq")
		if !f.IsValid() || f.Kind() != reflect.Uint32 {
			cl.Close()
			hC18.Class("no-seq-field")
			t.Skip("NetlinkClient has no uint32 field named seq any more")
		}
		*(*uint32)(unsafe.Pointer(f.UnsafeAddr())) = -back - 1
		var seqs []uint32
		for i := 0; i < 8; i++ {
			c := C18Case{Kind: "seqwrap", Type: uint16(1000 + i), Flags: syscall.NLM_F_REQUEST, Payload: []byte{byte(i)}}
			hC18.Eval()
			seq, err := cl.Send(syscall.NetlinkMessage{Header: syscall.NlMsghdr{Type: c.Type, Flags: c.Flags}, Data: c.Payload})
			if err != nil {
				cl.Close()
				t.Fatalf("VERIF-HARNESS Send: %v", err)
			}
			var msgs []syscall.NetlinkMessage
			for try := 0; try < 20000; try++ {
				msgs, err = cl.Receive(true, rawParser)
				if err == syscall.EAGAIN || err == syscall.EINTR {
					time.Sleep(50 * time.Microsecond)
					continue
				}
				break
			}
			if err != nil || len(msgs) != 1 {
				cl.Close()
				hC18.Fail(t, "TestC18SequenceWrap", c, "no reply to send %d of a client whose counter started %d below 2^32: %v", i, back+1, err)
			}
			if err := checkEchoPort(msgs[0].Data, seq, c.Type, c.Flags, c.Payload, 0); err != nil {
				cl.Close()
				hC18.Fail(t, "TestC18SequenceWrap", c, "send %d of a client whose counter started %d below 2^32 returned sequence %d: %v", i, back+1, seq, err)
			}
			for j, s := range seqs {
				if s == seq {
					cl.Close()
					hC18.Fail(t, "TestC18SequenceWrap", c, "a client whose counter started %d below 2^32: send %d returned sequence %d, which send %d had returned already (all so far: %v)", back+1, i, seq, j, seqs)
				}
			}
			// (increasing modulo 2^32; a client may skip numbers — 0 is the kernel's own — but never goes back)
			if n := len(seqs); n > 0 && (seq-seqs[n-1] == 0 || seq-seqs[n-1] >= 1<<31) {
				cl.Close()
				hC18.Fail(t, "TestC18SequenceWrap", c, "a client whose counter started %d below 2^32: send %d returned sequence %d after %d", back+1, i, seq, seqs[n-1])
			}
			seqs = append(seqs, seq)
		}
		cl.Close()
		hC18.Class("sequence-counter-wraps")
	}
}
