// Package client holds the checks of the audit/netlink client properties
// C08 C16 C17 C18.
package client

import (
	"bytes"
	"errors"
	"fmt"
	"runtime"
	"strings"
	"syscall"
	"testing"
	"time"

	libaudit "github.com/elastic/go-libaudit/v2"
	"pgregory.net/rapid"

	"verif/internal/hx"
	"verif/internal/simk"
	"verif/internal/uapi"
)

func TestMain(m *testing.M) { hx.Main(m) }

// C08 — each command method reports the kernel's verdict for its own request.

var hC08 = hx.New("C08", "rapid-generated histories of 1..10 client operations (GetStatus, GetRules, AddRule, DeleteRule, DeleteRules and every Set* in WaitForReply mode) on one AuditClient over a simulated kernel; per operation a generated script: ack errno (0 or any errno 1..133), unsolicited sequence-0 audit records and runs of up to 9 transient EINTR/EAGAIN receive failures before every datagram, optional reply with a foreign sequence number, generated status structs (32..48 bytes) and rule payloads, an errno at a chosen delete of DeleteRules; start sequence incl. values just below 2^32. Oracle: result nil <=> every ack had errno 0 and no foreign reply; otherwise errors.Is(err, errno) (AddRule/EEXIST: the documented 'rule exists'); returned data equals what the kernel sent; requests carry the UAPI message type, REQUEST|ACK and the caller's payload. Non-trivial = history with an operation that has errno != 0, an interleaved event, a transient failure or a foreign reply; distinct by hash of the history")

// Noise is what the client meets before one datagram of the answer: Events unsolicited records, then the
// transient failures Fails, then Seq — an arbitrary interleaving of unsolicited records (0) and transient
// failures (errno) with at most 9 failures in a row.
type Noise struct {
	Events int   `json:"events,omitempty"`
	Fails  []int `json:"fails,omitempty"` // errno values of transient receive failures (EINTR 4, EAGAIN 11)
	Seq    []int `json:"seq,omitempty"`
}

type Op08 struct {
	Op      string `json:"op"`
	U32     uint32 `json:"u32,omitempty"`
	Bool    bool   `json:"bool,omitempty"`
	Errno   int    `json:"errno,omitempty"`
	Foreign bool   `json:"foreign,omitempty"`
	// Fault replaces the normal answer to the first request of the operation by something that is not an
	// acknowledgement with errno 0, so the call must not return nil:
	//   "send"      the socket refuses the request (Send returns FaultErrno)
	//   "recv"      the receive of the ack fails with a non-transient error (FaultErrno)
	//   "shortack"  the NLMSG_ERROR message carries fewer than 4 bytes of payload
	//   "acktype"   a message with the right sequence number but another type than NLMSG_ERROR
	//   "silence"   nothing arrives at all (only generated rarely: the client waits 10 x 50 ms)
	Fault      string   `json:"fault,omitempty"`
	FaultErrno int      `json:"fault_errno,omitempty"`
	Status     []byte   `json:"status,omitempty"`
	Rules      [][]byte `json:"rules,omitempty"`
	Rule       []byte   `json:"rule,omitempty"`
	DelErrAt   int      `json:"del_err_at"`
	DelErrno   int      `json:"del_errno,omitempty"`
	Noise      []Noise  `json:"noise,omitempty"`
	// Batch: before this operation the same client issues one NoWait setter per entry (the kernel's errno for
	// it) and drains their acknowledgements with WaitForPendingACKs (one call per refused request, plus one):
	// what is left of that must not change the verdict of the operation that follows
	Batch []int `json:"batch,omitempty"`
}

type C08Case struct {
	StartSeq uint32 `json:"start_seq"`
	Ops      []Op08 `json:"ops"`
	// WrapErrs: how the transport reports a failing receive: 0 the bare errno, 1 *os.SyscallError, 2 fmt.Errorf("%w")
	WrapErrs int `json:"wrap_errs,omitempty"`
}

func (c C08Case) Describe() string {
	var b strings.Builder
	fmt.Fprintf(&b, "start sequence %d; failing receives report their errno %s\n", c.StartSeq, []string{"bare", "as *os.SyscallError", "wrapped with %w"}[c.WrapErrs%3])
	for i, o := range c.Ops {
		fmt.Fprintf(&b, " %d %s fault=%q/%d arg=%d/%v ack-errno=%d foreign=%v status=%x rules=%s rule=%x delErrAt=%d delErrno=%d noise=%v\n", i, o.Op, o.Fault, o.FaultErrno, o.U32, o.Bool, o.Errno, o.Foreign, o.Status, rulesText(o.Rules), o.Rule, o.DelErrAt, o.DelErrno, o.Noise)
		if len(o.Batch) > 0 {
			fmt.Fprintf(&b, "   (after a NoWait batch with errnos %v drained by WaitForPendingACKs)\n", o.Batch)
		}
	}
	return b.String()
}

func rulesText(rs [][]byte) string {
	if len(rs) >= 17 {
		return fmt.Sprintf("[%d rules of %d bytes]", len(rs), len(rs[0]))
	}
	return fmt.Sprintf("%x", rs)
}

var opNames = []string{"GetStatus", "GetRules", "AddRule", "DeleteRule", "DeleteRules", "SetPID", "SetRateLimit", "SetBacklogLimit", "SetEnabled", "SetImmutable", "SetFailure", "SetBacklogWaitTime"}

var errnoChoices = []int{int(syscall.EPERM), int(syscall.ENOENT), int(syscall.EEXIST), int(syscall.EINVAL), int(syscall.ENOMEM), int(syscall.EBUSY),
	int(syscall.EACCES), int(syscall.ENOBUFS), int(syscall.EOPNOTSUPP), int(syscall.EAGAIN), int(syscall.EINTR), int(syscall.ENOSPC), int(syscall.E2BIG),
	int(syscall.EFAULT), int(syscall.ESRCH), int(syscall.ECONNREFUSED), int(syscall.EIO), int(syscall.ENODEV), int(syscall.ERANGE), 133}

func noiseSizes() []int {
	if hx.Thorough() {
		return []int{0, 0, 1, 2, 3, 10, 9, 11, 25, 60, 65, 64, 129, 257, 1025}
	}
	return []int{0, 0, 1, 2, 3, 10, 9, 11, 25, 60, 65, 64, 129, 257}
}

func genNoise(t *rapid.T, eagainBudget *int) []Noise {
	var out []Noise
	for i, n := 0, rapid.IntRange(0, 4).Draw(t, "nnoise"); i < n; i++ {
		var nz Noise
		// (the property puts no bound on the number of unsolicited records; only failures are bounded, per run)
		// (dozens at a busy moment, thousands when the backlog of a loaded machine is drained: any power of two is a
		// plausible "enough" for somebody)
		nz.Events = rapid.SampledFrom(noiseSizes()).Draw(t, "events")
		for j, k := 0, rapid.SampledFrom([]int{0, 0, 0, 1, 2, 5, 9}).Draw(t, "nfails"); j < k; j++ {
			e := int(syscall.EINTR)
			if *eagainBudget > 0 && rapid.IntRange(0, 9).Draw(t, "eagain") == 0 {
				e = int(syscall.EAGAIN)
				*eagainBudget--
			}
			nz.Fails = append(nz.Fails, e)
		}
		// interleaving: runs of failures separated by unsolicited records
		for r, runs := 0, rapid.SampledFrom([]int{0, 0, 1, 2, 3}).Draw(t, "runs"); r < runs; r++ {
			for j, k := 0, rapid.SampledFrom([]int{1, 3, 6, 9}).Draw(t, "runlen"); j < k; j++ {
				nz.Seq = append(nz.Seq, int(syscall.EINTR))
			}
			nz.Seq = append(nz.Seq, 0)
		}
		if len(nz.Fails) > 0 && len(nz.Seq) > 0 {
			nz.Seq = append([]int{0}, nz.Seq...) // keep the two failure runs apart
		}
		out = append(out, nz)
	}
	return out
}

func genOp08(t *rapid.T, eagainBudget *int) Op08 {
	o := Op08{Op: rapid.SampledFrom(opNames).Draw(t, "op"), DelErrAt: -1}
	o.U32 = rapid.OneOf(rapid.Uint32(), rapid.SampledFrom([]uint32{0, 1, 2, 1<<31 - 1, 1 << 31, 1<<32 - 1})).Draw(t, "u32")
	o.Bool = rapid.Bool().Draw(t, "bool")
	if rapid.IntRange(0, 2).Draw(t, "fails") == 0 {
		o.Errno = rapid.OneOf(rapid.SampledFrom(errnoChoices), rapid.IntRange(1, 133)).Draw(t, "errno") // any errno the kernel knows
	}
	o.Foreign = rapid.IntRange(0, 9).Draw(t, "foreign") == 0
	if !o.Foreign && rapid.IntRange(0, 7).Draw(t, "fault") == 0 {
		o.Fault = rapid.SampledFrom([]string{"send", "send", "recv", "recv", "shortack", "acktype"}).Draw(t, "faultkind")
		o.FaultErrno = rapid.SampledFrom([]int{int(syscall.ENOBUFS), int(syscall.EBADF), int(syscall.ECONNREFUSED), int(syscall.EPERM), int(syscall.EMSGSIZE), int(syscall.ENOTCONN)}).Draw(t, "faulterrno")
	}
	o.Status = rapid.SliceOfN(rapid.Byte(), 44, 44).Draw(t, "status")[:rapid.SampledFrom([]int{32, 36, 40, 44, 44, 44}).Draw(t, "statuslen")]
	if (o.Op == "GetRules" || o.Op == "DeleteRules") && rapid.IntRange(0, 5).Draw(t, "manyrules") == 0 {
		// a rule set of realistic size: dozens to hundreds of rules, each as long as struct audit_rule_data is (1040
		// bytes and a string buffer), up to the largest message
		n := rapid.SampledFrom([]int{65, 64, 33, 129, 300, 17}).Draw(t, "nmany")
		size := rapid.SampledFrom([]int{1056, 1040, 1100, 2000, 8954}).Draw(t, "rulesize")
		for i := 0; i < n; i++ {
			r := bytes.Repeat([]byte{byte(i), byte(i >> 8), 0x5A}, size/3+1)[:size]
			o.Rules = append(o.Rules, r)
		}
	} else {
		for i, n := 0, rapid.IntRange(0, 5).Draw(t, "nrules"); i < n; i++ {
			o.Rules = append(o.Rules, rapid.SliceOfN(rapid.Byte(), 0, 60).Draw(t, "rulebytes"))
		}
	}
	o.Rule = rapid.SliceOfN(rapid.Byte(), 0, 60).Draw(t, "rule")
	if o.Op == "DeleteRules" && len(o.Rules) > 0 && rapid.Bool().Draw(t, "delerr") {
		o.DelErrAt = rapid.IntRange(0, len(o.Rules)-1).Draw(t, "delat")
		o.DelErrno = rapid.OneOf(rapid.SampledFrom(errnoChoices), rapid.IntRange(1, 133)).Draw(t, "delerrno")
	}
	o.Noise = genNoise(t, eagainBudget)
	if rapid.IntRange(0, 5).Draw(t, "batch") == 0 {
		o.Batch = rapid.SliceOfN(rapid.SampledFrom([]int{0, 0, int(syscall.EPERM), int(syscall.EINVAL), 0, int(syscall.EBUSY)}), 1, 5).Draw(t, "batcherrnos")
	}
	return o
}

func genC08(t *rapid.T) C08Case {
	c := C08Case{StartSeq: rapid.SampledFrom([]uint32{0, 0, 5, 1000, 1<<31 - 2, 1<<32 - 3, 1<<32 - 2}).Draw(t, "startseq")}
	c.WrapErrs = rapid.SampledFrom([]int{0, 0, 1, 2}).Draw(t, "wraperrs")
	budget := 0
	if rapid.IntRange(0, 7).Draw(t, "eagainhistory") == 0 {
		budget = 2
	}
	for i, n := 0, rapid.IntRange(1, 10).Draw(t, "nops"); i < n; i++ {
		c.Ops = append(c.Ops, genOp08(t, &budget))
	}
	return c
}

// unsolicited audit records come in every record type the kernel or user space emits (sequence number 0)
var eventTypes = []uint16{1300, 1302, 1305, 1006, 1005, 1100, 1112, 1123, 1307, 1309, 1320, 1326, 1327, 1329, 1400, 1701, 2100, 2404, 1199, 1299, 2999}

func event(i int) []byte {
	return simk.Msg(eventTypes[i%len(eventTypes)], 0, 0, 0, []byte(fmt.Sprintf("audit(1700000000.%03d:%d): unsolicited=%d", i%1000, 100+i, i)))
}

// scripted installs the kernel behaviour of one operation.
func scripted(k *simk.K, o Op08) {
	noiseIdx, evIdx, delCount := 0, 0, 0
	faulted := false
	k.SendErr = nil
	if o.Fault == "send" {
		k.SendErr = syscall.Errno(o.FaultErrno)
	}
	push := func(d []byte) {
		if len(o.Noise) > 0 {
			nz := o.Noise[noiseIdx%len(o.Noise)]
			firstPass := noiseIdx < len(o.Noise)
			noiseIdx++
			for i := 0; i < nz.Events; i++ {
				k.Push(event(evIdx))
				evIdx++
			}
			for _, e := range nz.Fails {
				if e == int(syscall.EAGAIN) && !firstPass {
					e = int(syscall.EINTR) // every EAGAIN costs a 50 ms sleep in the client: only once per script
				}
				k.Fail(syscall.Errno(e))
			}
			for _, e := range nz.Seq {
				if e == 0 {
					k.Push(event(evIdx))
					evIdx++
				} else {
					k.Fail(syscall.Errno(e))
				}
			}
			if n := len(nz.Seq); n > 0 && nz.Seq[n-1] != 0 {
				_ = n
			}
		}
		k.Push(d)
	}
	k.OnSend = func(k *simk.K, s simk.Sent) {
		if o.Foreign {
			push(simk.Ack(s.Seq+7, 0, s.Type))
			return
		}
		if o.Fault != "" && !faulted {
			faulted = true
			switch o.Fault {
			case "recv":
				k.Fail(syscall.Errno(o.FaultErrno)) // and no acknowledgement ever arrives
			case "shortack":
				push(simk.Msg(syscall.NLMSG_ERROR, 0, s.Seq, 0, make([]byte, o.FaultErrno%4)))
			case "acktype":
				push(simk.Msg(syscall.NLMSG_DONE, 0, s.Seq, 0, []byte{0, 0, 0, 0}))
			}
			return
		}
		switch uint32(s.Type) {
		case uapi.A("AUDIT_GET"):
			push(simk.Ack(s.Seq, o.Errno, s.Type))
			if o.Errno == 0 {
				push(simk.Msg(uint16(uapi.A("AUDIT_GET")), 0, s.Seq, 0, o.Status))
			}
		case uapi.A("AUDIT_LIST_RULES"):
			push(simk.Ack(s.Seq, o.Errno, s.Type))
			if o.Errno == 0 {
				for _, r := range o.Rules {
					push(simk.Msg(uint16(uapi.A("AUDIT_LIST_RULES")), syscall.NLM_F_MULTI, s.Seq, 0, r))
				}
				push(simk.Msg(syscall.NLMSG_DONE, syscall.NLM_F_MULTI, s.Seq, 0, []byte{0, 0, 0, 0}))
			}
		case uapi.A("AUDIT_DEL_RULE"):
			e := o.Errno
			if o.Op == "DeleteRules" {
				e = 0
				if delCount == o.DelErrAt {
					e = o.DelErrno
				}
				delCount++
			}
			push(simk.Ack(s.Seq, e, s.Type))
		default:
			push(simk.Ack(s.Seq, o.Errno, s.Type))
		}
	}
}

func statusBytes(s *libaudit.AuditStatus) []byte {
	b := make([]byte, 44)
	for j, v := range []uint32{uint32(s.Mask), s.Enabled, s.Failure, s.PID, s.RateLimit, s.BacklogLimit, s.Lost, s.Backlog, s.FeatureBitmap, s.BacklogWaitTime, s.BacklogWaitTimeActual} {
		ne.PutUint32(b[4*j:], v)
	}
	return b
}

// noWaitBatch: NoWait setters and the calls that drain their acknowledgements (the model is C17's: every call
// consumes the pending acknowledgements in order up to and including the first one that carries an error).
func noWaitBatch(k *simk.K, cl *libaudit.AuditClient, errnos []int, op int) error {
	k.OnSend, k.Queue, k.SendErr = nil, nil, nil
	keep := k.KeepQueue
	k.KeepQueue = true
	defer func() { k.KeepQueue = keep }()
	var seqs []uint32
	for j := range errnos {
		if err := cl.SetRateLimit(uint32(j), libaudit.NoWait); err != nil {
			return fmt.Errorf("op %d: NoWait setter %d of the batch before it: %v", op, j, err)
		}
		seqs = append(seqs, k.Seq)
	}
	for j, e := range errnos {
		k.Push(simk.Ack(seqs[j], e, uint16(uapi.A("AUDIT_SET"))))
	}
	for pending := errnos; len(pending) > 0; {
		want, n := 0, len(pending)
		for j, e := range pending {
			if e != 0 {
				want, n = e, j+1
				break
			}
		}
		err := cl.WaitForPendingACKs()
		if (want == 0) != (err == nil) || (want != 0 && !errors.Is(err, syscall.Errno(want))) {
			return fmt.Errorf("op %d: WaitForPendingACKs with pending acknowledgements %v returned %v", op, pending, err)
		}
		pending = pending[n:]
	}
	if len(k.Queue) != 0 {
		return fmt.Errorf("op %d: %d acknowledgements of the NoWait batch %v were left unread by the WaitForPendingACKs calls", op, len(k.Queue), errnos)
	}
	hC08.Class("op-after-nowait-batch")
	return nil
}

func propC08(c C08Case) error {
	k := simk.New(c.StartSeq)
	k.WrapFails = c.WrapErrs % 3
	if k.WrapFails != 0 {
		hC08.Class("history-with-wrapped-receive-errors")
	}
	cl := &libaudit.AuditClient{Netlink: k}
	nontrivial := false
	type keptSt struct {
		op   int
		got  *libaudit.AuditStatus
		want []byte
	}
	var keptStatus []keptSt
	for i, o := range c.Ops {
		if len(o.Batch) > 0 {
			if err := noWaitBatch(k, cl, o.Batch, i); err != nil {
				return err
			}
		}
		scripted(k, o)
		sentBefore := len(k.Sent)
		var err error
		for _, ks := range keptStatus {
			if !bytes.Equal(statusBytes(ks.got), ks.want) {
				return fmt.Errorf("op %d: the status GetStatus returned in op %d (the kernel sent %x) reads %+v now, after later operations on the client", i, ks.op, ks.want, *ks.got)
			}
		}
		var gotStatus *libaudit.AuditStatus
		var gotRules [][]byte
		var gotN int
		wantType := uapi.A("AUDIT_SET")
		var wantPayload []byte
		switch o.Op {
		case "GetStatus":
			gotStatus, err = cl.GetStatus()
			wantType = uapi.A("AUDIT_GET")
		case "GetRules":
			gotRules, err = cl.GetRules()
			wantType = uapi.A("AUDIT_LIST_RULES")
		case "AddRule":
			err = cl.AddRule(o.Rule)
			wantType, wantPayload = uapi.A("AUDIT_ADD_RULE"), o.Rule
		case "DeleteRule":
			err = cl.DeleteRule(o.Rule)
			wantType, wantPayload = uapi.A("AUDIT_DEL_RULE"), o.Rule
		case "DeleteRules":
			gotN, err = cl.DeleteRules()
			wantType = uapi.A("AUDIT_LIST_RULES")
		case "SetPID":
			err = cl.SetPID(libaudit.WaitForReply)
		case "SetRateLimit":
			err = cl.SetRateLimit(o.U32, libaudit.WaitForReply)
		case "SetBacklogLimit":
			err = cl.SetBacklogLimit(o.U32, libaudit.WaitForReply)
		case "SetEnabled":
			err = cl.SetEnabled(o.Bool, libaudit.WaitForReply)
		case "SetImmutable":
			err = cl.SetImmutable(libaudit.WaitForReply)
		case "SetFailure":
			err = cl.SetFailure(libaudit.FailureMode(o.U32%3), libaudit.WaitForReply)
		case "SetBacklogWaitTime":
			err = cl.SetBacklogWaitTime(int32(o.U32), libaudit.WaitForReply)
		}
		what := fmt.Sprintf("op %d %s (ack errno %d, foreign %v)", i, o.Op, o.Errno, o.Foreign)
		if o.Fault != "" {
			if err == nil {
				return fmt.Errorf("%s: fault %q (errno %d): the kernel never acknowledged the request with errno 0, but the call returned nil", what, o.Fault, o.FaultErrno)
			}
			if (o.Fault == "send" || o.Fault == "recv") && !errors.Is(err, syscall.Errno(o.FaultErrno)) {
				hC08.Class("fault-error-does-not-wrap-errno") // informational: the property only demands an error
			}
			hC08.Class("op-with-fault-" + o.Fault)
			nontrivial = true
			k.SendErr = nil
			continue
		}
		// the request the kernel saw
		if len(k.Sent) <= sentBefore {
			return fmt.Errorf("%s: no request was sent", what)
		}
		first := k.Sent[sentBefore]
		if uint32(first.Type) != wantType {
			return fmt.Errorf("%s: request type %d, want %d", what, first.Type, wantType)
		}
		if first.Flags != syscall.NLM_F_REQUEST|syscall.NLM_F_ACK {
			return fmt.Errorf("%s: request flags %#x, want REQUEST|ACK", what, first.Flags)
		}
		if wantPayload != nil && !bytes.Equal(first.Data, wantPayload) {
			return fmt.Errorf("%s: request payload %x, want the caller's rule %x", what, first.Data, wantPayload)
		}
		wantErrno := o.Errno
		if o.Op == "DeleteRules" && o.Errno == 0 && o.DelErrAt >= 0 {
			wantErrno = o.DelErrno
		}
		switch {
		case o.Foreign:
			if err == nil {
				return fmt.Errorf("%s: a reply with a foreign sequence number was accepted as success", what)
			}
		case wantErrno != 0:
			if err == nil {
				return fmt.Errorf("%s: the kernel answered errno %d (%v) but the call returned nil", what, wantErrno, syscall.Errno(wantErrno))
			}
			if !errors.Is(err, syscall.Errno(wantErrno)) && !(o.Op == "AddRule" && wantErrno == int(syscall.EEXIST) && strings.Contains(err.Error(), "rule exists")) {
				return fmt.Errorf("%s: error %q does not identify the kernel's errno %d (%v)", what, err, wantErrno, syscall.Errno(wantErrno))
			}
		default:
			if err != nil {
				return fmt.Errorf("%s: the kernel acknowledged with errno 0 but the call returned %v", what, err)
			}
			switch o.Op {
			case "GetStatus":
				want := make([]byte, 44)
				copy(want, o.Status)
				if gotStatus == nil || !bytes.Equal(statusBytes(gotStatus), want) {
					return fmt.Errorf("%s: status %+v, kernel sent %x", what, gotStatus, o.Status)
				}
				// the result is the caller's: it is kept, and looked at again after every later operation
				keptStatus = append(keptStatus, keptSt{i, gotStatus, want})
			case "GetRules":
				if len(gotRules) != len(o.Rules) {
					return fmt.Errorf("%s: %d rules returned, kernel sent %d", what, len(gotRules), len(o.Rules))
				}
				for j := range o.Rules {
					if !bytes.Equal(gotRules[j], o.Rules[j]) {
						return fmt.Errorf("%s: rule %d = %x, kernel sent %x", what, j, gotRules[j], o.Rules[j])
					}
				}
			case "DeleteRules":
				if gotN != len(o.Rules) {
					return fmt.Errorf("%s: returned %d, %d rules were deleted", what, gotN, len(o.Rules))
				}
				dels := k.Sent[sentBefore+1:]
				if len(dels) != len(o.Rules) {
					return fmt.Errorf("%s: %d delete requests for %d rules", what, len(dels), len(o.Rules))
				}
				for j, d := range dels {
					if uint32(d.Type) != uapi.A("AUDIT_DEL_RULE") || !bytes.Equal(d.Data, o.Rules[j]) {
						return fmt.Errorf("%s: delete request %d = type %d %x, want rule %x", what, j, d.Type, d.Data, o.Rules[j])
					}
				}
			}
		}
		events, fails := 0, 0
		for _, nz := range o.Noise {
			events += nz.Events
			fails += len(nz.Fails)
			for _, e := range nz.Seq {
				if e == 0 {
					events++
				} else {
					fails++
				}
			}
		}
		if wantErrno != 0 {
			hC08.Class("op-with-errno")
		}
		if len(o.Rules) >= 17 && (o.Op == "GetRules" || o.Op == "DeleteRules") {
			hC08.Class("op-with-17-or-more-rules-of-realistic-size")
		}
		if o.Foreign {
			hC08.Class("op-with-foreign-reply")
		}
		if events > 0 {
			hC08.Class("op-with-interleaved-events")
		}
		if fails > 0 {
			hC08.Class("op-with-transient-failures")
		}
		hC08.Class("op-" + o.Op)
		hC08.ClassN("receives-on-empty-queue", k.EmptyReads)
		k.EmptyReads = 0
		if wantErrno != 0 || o.Foreign || events > 0 || fails > 0 {
			nontrivial = true
		}
	}
	if nontrivial {
		hC08.NonTrivial(hx.FP(c.Describe()), c.Describe)
	}
	return nil
}

func TestC08Regress(t *testing.T) { hx.Regress(t, hC08, "TestC08", propC08) }

func TestC08(t *testing.T) { hx.Check(t, hC08, "TestC08", genC08, propC08) }

// TestC08StatusValues: GetStatus with every field of the reply, one at a time, at 0..300 and at the powers of two
// and their neighbours: the caller gets exactly what the kernel sent.
func TestC08StatusValues(t *testing.T) {
	var values []uint32
	for v := uint32(0); v <= 300; v++ {
		values = append(values, v)
	}
	for b := uint(9); b < 32; b++ {
		values = append(values, 1<<b-1, 1<<b, 1<<b+1)
	}
	values = append(values, 0xffffffff)
	for field := 0; field < 11; field++ {
		for _, v := range values {
			st := make([]byte, 44)
			ne.PutUint32(st[4*field:], v)
			c := C08Case{StartSeq: 5, Ops: []Op08{{Op: "GetStatus", Status: st, DelErrAt: -1}}}
			hC08.Eval()
			if err := hx.Guard(propC08, c); err != nil {
				hC08.Fail(t, "TestC08", c, "status field %d = %#x: %v", field, v, err)
			}
		}
	}
	hC08.Class("status-value-sweep")
}

// TestC08Errnos: every command x every errno 1..133 as the kernel's verdict (no noise).
func TestC08Errnos(t *testing.T) {
	n := 0
	for _, op := range opNames {
		for e := 1; e <= 133; e++ {
			o := Op08{Op: op, Errno: e, DelErrAt: -1, U32: 1, Status: make([]byte, 44), Rules: [][]byte{{1, 2, 3}}, Rule: []byte{9}}
			cases := []C08Case{{StartSeq: 10, Ops: []Op08{o}}}
			if op == "DeleteRules" {
				o2 := o
				o2.Errno, o2.DelErrAt, o2.DelErrno = 0, 0, e
				cases = append(cases, C08Case{StartSeq: 10, Ops: []Op08{o2}})
			}
			for _, c := range cases {
				hC08.Eval()
				n++
				if err := hx.Guard(propC08, c); err != nil {
					hC08.Fail(t, "TestC08", c, "%v", err)
				}
			}
		}
	}
	hC08.Extra("errno_sweep_cases", n)
}

// TestC08RealTransport: the commands over the library's own netlink transport against a real kernel, in a
// private network namespace (see TestC18Multicast). The peer is rtnetlink, which refuses every audit message
// type with EOPNOTSUPP — that is the kernel's verdict each command has to report. Before the command, which
// is the FIRST one on a fresh client, 0..3 unsolicited kernel messages with sequence number 0 are queued on
// the client's socket: address notifications caused by a raw socket whose requests carry sequence 0.
func TestC08RealTransport(t *testing.T) {
	rounds := hx.EnvInt("VERIF_N", 120)
	type result struct {
		what string
		err  error
	}
	res := make(chan result, 1)
	go func() {
		runtime.LockOSThread() // never unlocked: the thread that lives in the private namespace ends with the goroutine
		what, err := realTransportRounds(t, rounds)
		res <- result{what, err}
	}()
	r := <-res
	var he harnessErr
	if errors.As(r.err, &he) {
		t.Fatalf("VERIF-HARNESS harness problem (not a finding about the library): %s: %v", r.what, r.err) // the stage is undecided
	}
	if r.err != nil {
		hC08.Fail(t, "TestC08RealTransport", C08Case{}, "%s: %v", r.what, r.err)
	}
}

// harnessErr: the harness' own traffic (address changes through a raw socket) went wrong
type harnessErr struct{ error }

func realTransportRounds(t *testing.T, rounds int) (string, error) {
	if err := syscall.Unshare(syscall.CLONE_NEWNET); err != nil {
		hC08.Class("no-private-network-namespace")
		t.Logf("unshare(CLONE_NEWNET): %v — stage skipped", err)
		return "", nil
	}
	req, err := syscall.Socket(syscall.AF_NETLINK, syscall.SOCK_RAW, syscall.NETLINK_ROUTE)
	if err != nil {
		return "requester socket", err
	}
	defer syscall.Close(req)
	if err := syscall.Bind(req, &syscall.SockaddrNetlink{Family: syscall.AF_NETLINK}); err != nil {
		return "requester socket", err
	}
	ackOf := func() error {
		buf := make([]byte, 4096)
		for try := 0; try < 2000; try++ {
			n, _, err := syscall.Recvfrom(req, buf, syscall.MSG_DONTWAIT)
			if err == syscall.EAGAIN || err == syscall.EINTR {
				time.Sleep(100 * time.Microsecond)
				continue
			}
			if err != nil || n < 20 || ne.Uint32(buf[16:]) != 0 {
				return harnessErr{fmt.Errorf("the kernel did not acknowledge the address change: % x (%v)", buf[:max(n, 0)], err)}
			}
			return nil
		}
		return harnessErr{syscall.EAGAIN}
	}
	cmds := []string{"GetStatus", "SetEnabled", "GetRules", "AddRule", "DeleteRule", "SetRateLimit", "SetBacklogLimit"}
	for r := 0; r < rounds; r++ {
		nEvents, cmd := r%4, cmds[r%len(cmds)]
		what := fmt.Sprintf("%s as the first command of a fresh client with %d unsolicited sequence-0 kernel messages queued before the kernel's answer (EOPNOTSUPP)", cmd, nEvents)
		hC08.Eval()
		nc, err := libaudit.NewNetlinkClient(syscall.NETLINK_ROUTE, rtmgrpIPv4IfAddr, make([]byte, 16384), nil)
		if err != nil {
			return what, fmt.Errorf("NewNetlinkClient: %v", err)
		}
		cl := &libaudit.AuditClient{Netlink: nc}
		for e := 0; e < nEvents; e++ {
			payload := []byte{syscall.AF_INET, 32, 0, 0, 1, 0, 0, 0}
			for _, a := range []uint16{syscall.IFA_LOCAL, syscall.IFA_ADDRESS} {
				payload = append(payload, 8, 0, byte(a), 0, 10, byte(100+r>>8%150), byte(r), byte(e+1)) // (some stay configured: never the same address twice)
			}
			for _, typ := range []uint16{syscall.RTM_NEWADDR, syscall.RTM_DELADDR}[:1+e%2] {
				flags := uint16(syscall.NLM_F_REQUEST | syscall.NLM_F_ACK)
				if typ == syscall.RTM_NEWADDR {
					flags |= syscall.NLM_F_CREATE
				}
				if err := syscall.Sendto(req, simk.Msg(typ, flags, 0, 0, payload), 0, &syscall.SockaddrNetlink{Family: syscall.AF_NETLINK}); err != nil {
					nc.Close()
					return what, harnessErr{fmt.Errorf("address change request: %v", err)}
				}
				if err := ackOf(); err != nil {
					nc.Close()
					return what, err
				}
			}
		}
		switch cmd {
		case "GetStatus":
			_, err = cl.GetStatus()
		case "SetEnabled":
			err = cl.SetEnabled(true, libaudit.WaitForReply)
		case "GetRules":
			_, err = cl.GetRules()
		case "AddRule":
			err = cl.AddRule(make([]byte, 1040))
		case "DeleteRule":
			err = cl.DeleteRule(make([]byte, 1040))
		case "SetRateLimit":
			err = cl.SetRateLimit(7, libaudit.WaitForReply)
		case "SetBacklogLimit":
			err = cl.SetBacklogLimit(7, libaudit.WaitForReply)
		}
		nc.Close()
		if err == nil {
			return what, fmt.Errorf("the call returned nil")
		}
		if !errors.Is(err, syscall.EOPNOTSUPP) {
			return what, fmt.Errorf("error %q does not identify the kernel's errno EOPNOTSUPP", err)
		}
		hC08.Class("real-transport-first-command")
		if nEvents > 0 {
			hC08.Class("real-transport-first-command-with-queued-events")
			hC08.NonTrivial(hx.FP("realtransport", r), func() string { return what })
		}
	}
	return "", nil
}
