package client

import (
	"bytes"
	"errors"
	"fmt"
	"strings"
	"sync"
	"syscall"
	"testing"
	"time"

	libaudit "github.com/elastic/go-libaudit/v2"
	"pgregory.net/rapid"

	"verif/internal/hx"
	"verif/internal/simk"
	"verif/internal/uapi"
)

// C17 — NoWait requests have their ACK consumed exactly once, in order, by
// WaitForPendingACKs (which returns the first kernel error and can be called
// again without re-waiting); Close closes the socket exactly once, clearing the
// audit PID iff SetPID was used; rule data returned by GetRules stays unchanged
// by later receives.

var hC17 = hx.New("C17", "rapid-generated histories over the simulated kernel (one reused, poisoned receive buffer): NoWait setters with a generated ack errno each, WaitForReply setters, WaitForPendingACKs at arbitrary points (also twice in a row and with nothing pending), GetRules followed by further traffic, SetPID in either mode, then 1..4 sequential Close calls; plus concurrent Close from 2..8 goroutines (race build). Oracle: model of the pending-ACK list (consumed in send order, first kernel error returned, the rest left for the next call, no Receive when nothing is pending, exactly one Receive per consumed ACK), Close bookkeeping from the kernel's view (exactly one socket close in total, iff SetPID exactly one AUDIT_SET{mask=PID,pid=0} before it and nothing after), byte equality of earlier GetRules results after every later receive. Non-trivial = history with >= 2 NoWait requests and >= 2 waits, or an error among the pending ACKs, or >= 2 Close calls; distinct by hash of the history")

type Op17 struct {
	K     string   `json:"k"` // nowait, wait, waitacks, getrules, setpid, setpidwait
	U32   uint32   `json:"u32,omitempty"`
	Errno int      `json:"errno,omitempty"`
	Rules [][]byte `json:"rules,omitempty"`
	Noise int      `json:"noise,omitempty"` // unsolicited events before each ack
	Eintr int      `json:"eintr,omitempty"` // transient EINTR receive failures before the ack
	Hard  int      `json:"hard,omitempty"`  // errno of ONE non-transient receive failure that hits the first wait for this ack
	// BadType: the kernel's answer to this NoWait request carries its sequence number but is not an NLMSG_ERROR
	// (type given here): the wait reports an error, and the answer is consumed all the same — once
	BadType int `json:"bad_type,omitempty"`
	// SendFail: the socket refuses this NoWait request (errno): nothing went out, nothing is pending
	SendFail int `json:"send_fail,omitempty"`
	// Setter: which Set* command carries a nowait / wait request (index into c17Setters; 0 = SetRateLimit)
	Setter int `json:"setter,omitempty"`
}

var c17Setters = []string{"SetRateLimit", "SetImmutable", "SetBacklogWaitTime", "SetEnabled", "SetFailure", "SetBacklogLimit"}

func c17Set(cl *libaudit.AuditClient, o Op17, wm libaudit.WaitMode) error {
	switch c17Setters[o.Setter%len(c17Setters)] {
	case "SetImmutable":
		return cl.SetImmutable(wm)
	case "SetBacklogWaitTime":
		return cl.SetBacklogWaitTime(int32(o.U32), wm)
	case "SetEnabled":
		return cl.SetEnabled(o.U32%2 == 1, wm)
	case "SetFailure":
		return cl.SetFailure(libaudit.FailureMode(o.U32%3), wm)
	case "SetBacklogLimit":
		return cl.SetBacklogLimit(o.U32, wm)
	}
	return cl.SetRateLimit(o.U32, wm)
}

type C17Case struct {
	Ops    []Op17 `json:"ops"`
	Closes int    `json:"closes"`
	// CloseSendErrno: the socket refuses every send made during Close with this errno (0 = sends work)
	CloseSendErrno int `json:"close_send_errno,omitempty"`
	// AfterClose: WaitForPendingACKs calls made after Close (a shutdown path that closes first);
	// ClosedReads: the closed socket refuses every read with EBADF (false: replies already queued stay readable)
	AfterClose  int  `json:"after_close,omitempty"`
	ClosedReads bool `json:"closed_reads,omitempty"`
	// Tail: calls made on the closed client (setpid, nowait, close): every Close among them must be a no-op
	Tail []string `json:"tail,omitempty"`
	// CloseErrno: what closing the socket itself returns (EINTR: the descriptor is gone all the same)
	CloseErrno int `json:"close_errno,omitempty"`
	// StartBelowWrap: the socket's sequence counter starts this far below 2^32 (0 = at 100): requests get the numbers
	// up to 4294967295, then 0, 1, ... — a request numbered 0 is a request like any other
	StartBelowWrap uint32 `json:"start_below_wrap,omitempty"`
}

func (c C17Case) Describe() string {
	var b strings.Builder
	for i, o := range c.Ops {
		fmt.Fprintf(&b, " %d %s(%s) u32=%d ack-errno=%d rules=%x noise=%d eintr=%d hard=%d answer-type=%d send-refused=%d\n", i, o.K, c17Setters[o.Setter%len(c17Setters)], o.U32, o.Errno, o.Rules, o.Noise, o.Eintr, o.Hard, o.BadType, o.SendFail)
	}
	fmt.Fprintf(&b, " (sequence counter starts %d below 2^32; closing the socket returns errno %d)", c.StartBelowWrap, c.CloseErrno)
	fmt.Fprintf(&b, " then Close x %d (sends during Close fail with errno %d), then WaitForPendingACKs x %d (reads on the closed socket fail: %v), then %v\n", c.Closes, c.CloseSendErrno, c.AfterClose, c.ClosedReads, c.Tail)
	return b.String()
}

func genC17(t *rapid.T) C17Case {
	var c C17Case
	nops, kinds := rapid.IntRange(1, 12).Draw(t, "nops"), []string{"nowait", "nowait", "nowait", "wait", "waitacks", "waitacks", "getrules", "setpid", "setpidwait"}
	if rapid.IntRange(0, 11).Draw(t, "longrun") == 0 {
		// dozens to hundreds of unacknowledged requests on one client before anybody waits
		nops = rapid.SampledFrom([]int{66, 65, 64, 130, 257, 300, 33, 1025}).Draw(t, "runlen")
		kinds = []string{"nowait", "nowait", "nowait", "nowait", "nowait", "nowait", "nowait", "nowait", "nowait", "nowait", "nowait", "nowait", "nowait", "nowait", "nowait", "nowait", "nowait", "nowait", "nowait", "waitacks"}
	}
	for i, n := 0, nops; i < n; i++ {
		o := Op17{K: rapid.SampledFrom(kinds).Draw(t, "k")}
		o.U32 = rapid.Uint32Range(0, 9999).Draw(t, "u32")
		o.Setter = rapid.IntRange(0, len(c17Setters)-1).Draw(t, "setter")
		if rapid.IntRange(0, 3).Draw(t, "fail") == 0 {
			o.Errno = rapid.SampledFrom([]int{int(syscall.EPERM), int(syscall.EINVAL), int(syscall.EBUSY), int(syscall.ENOMEM)}).Draw(t, "errno")
		}
		o.Noise = rapid.SampledFrom([]int{0, 0, 0, 1, 2, 10, 9, 11, 25, 65, 64, 129}).Draw(t, "noise")
		o.Eintr = rapid.SampledFrom([]int{0, 0, 0, 1, 3, 9}).Draw(t, "eintr")
		if o.K == "nowait" && rapid.IntRange(0, 9).Draw(t, "sendfail") == 0 {
			o.SendFail = rapid.SampledFrom([]int{int(syscall.ENOBUFS), int(syscall.EPERM), int(syscall.ECONNREFUSED), int(syscall.EAGAIN)}).Draw(t, "sendfailerrno")
		} else if o.K == "nowait" && rapid.IntRange(0, 9).Draw(t, "badtype") == 0 {
			o.BadType = rapid.SampledFrom([]int{1001, 1000, 3, 1300}).Draw(t, "badtypeval")
		} else if o.K == "nowait" && rapid.IntRange(0, 7).Draw(t, "hard") == 0 {
			o.Hard = rapid.SampledFrom([]int{int(syscall.ENOBUFS), int(syscall.EBADF), int(syscall.ENOTCONN)}).Draw(t, "harderrno")
		} else if (o.K == "wait" || o.K == "setpidwait") && rapid.IntRange(0, 5).Draw(t, "lostreply") == 0 {
			// the reply to a synchronous request never comes: the read fails (a full socket buffer, a dead socket). That
			// request was never one of the NoWait requests and nobody waits for it later
			o.Hard = rapid.SampledFrom([]int{int(syscall.ENOBUFS), int(syscall.EBADF), int(syscall.ENOTCONN), int(syscall.EIO)}).Draw(t, "lostreplyerrno")
		}
		if o.K == "getrules" {
			for j, m := 0, rapid.IntRange(1, 4).Draw(t, "nrules"); j < m; j++ {
				o.Rules = append(o.Rules, rapid.SliceOfN(rapid.Byte(), 1, 48).Draw(t, "rule"))
			}
		}
		c.Ops = append(c.Ops, o)
	}
	if rapid.IntRange(0, 3).Draw(t, "wrap") == 0 {
		c.StartBelowWrap = rapid.Uint32Range(1, uint32(len(c.Ops))+2).Draw(t, "startbelowwrap")
	}
	c.Closes = rapid.SampledFrom([]int{0, 1, 1, 2, 3, 4}).Draw(t, "closes")
	if rapid.IntRange(0, 4).Draw(t, "closesendfails") == 0 {
		c.CloseSendErrno = rapid.SampledFrom([]int{int(syscall.ENOBUFS), int(syscall.EPERM), int(syscall.ECONNREFUSED), int(syscall.EBADF)}).Draw(t, "closesenderrno")
	}
	if c.Closes > 0 && rapid.IntRange(0, 3).Draw(t, "closefails") == 0 {
		c.CloseErrno = rapid.SampledFrom([]int{int(syscall.EINTR), int(syscall.EIO), int(syscall.EBADF), int(syscall.EINTR)}).Draw(t, "closeerrno")
	}
	if c.Closes > 0 {
		c.AfterClose = rapid.SampledFrom([]int{0, 0, 1, 2}).Draw(t, "afterclose")
		c.ClosedReads = rapid.Bool().Draw(t, "closedreads")
		c.Tail = rapid.SliceOfN(rapid.SampledFrom([]string{"close", "setpid", "setpidwait", "nowait", "close"}), 0, 4).Draw(t, "tail")
	}
	return c
}

type pend struct {
	seq   uint32
	errno int
	noise int
	eintr int
	hard  int
	bad   int
}

func propC17(c C17Case) error {
	k := simk.New(100)
	if c.StartBelowWrap > 0 {
		k = simk.New(-c.StartBelowWrap)
		k.AllowZeroSeq = true
		hC17.Class("history-with-sequence-counter-started-just-below-2^32")
	}
	k.KeepQueue = true
	cl := &libaudit.AuditClient{Netlink: k}
	var pending []pend
	usedPID := false
	type saved struct {
		got, snap [][]byte
		op        int
	}
	var savedRules []saved
	nowaits, waits, errAmong := 0, 0, false
	evn := 0
	pushNoise := func(n int) {
		for i := 0; i < n; i++ {
			k.Push(event(evn))
			evn++
		}
	}
	checkSaved := func(at string) error {
		for _, s := range savedRules {
			for j := range s.got {
				if !bytes.Equal(s.got[j], s.snap[j]) {
					return fmt.Errorf("%s: rule %d returned by GetRules in op %d changed from %x to %x after later receives", at, j, s.op, s.snap[j], s.got[j])
				}
			}
		}
		return nil
	}
	waitAcks := func(what string) error {
		// the kernel has the ACKs of everything pending ready, in send order
		k.OnSend = nil
		k.Queue = nil
		for _, p := range pending {
			if p.hard != 0 {
				// the read fails for good; the ACK itself has not been read and stays with the kernel
				k.Fail(syscall.Errno(p.hard))
				break
			}
			pushNoise(p.noise)
			for j := 0; j < p.eintr; j++ {
				k.Fail(syscall.EINTR)
			}
			if p.bad != 0 {
				k.Push(simk.Msg(uint16(p.bad), 0, p.seq, 0, make([]byte, 44)))
				break // the call stops there
			}
			k.Push(simk.Ack(p.seq, p.errno, uint16(uapi.A("AUDIT_SET"))))
		}
		before := k.Recvs
		err := cl.WaitForPendingACKs()
		consumed, recvs, wantErrno := 0, 0, 0
		hardHit, badHit := false, false
		for pi := range pending {
			p := &pending[pi]
			if p.hard != 0 {
				// the call must fail; nothing is demanded about the error value; the ACK was not consumed
				recvs++
				hardHit = true
				p.hard = 0
				break
			}
			consumed++
			recvs += 1 + p.noise + p.eintr
			if p.bad != 0 {
				badHit = true
				break
			}
			if p.errno != 0 {
				wantErrno = p.errno
				break
			}
		}
		if badHit {
			if err == nil {
				return fmt.Errorf("%s: the answer to a pending request was not an NLMSG_ERROR, but the call returned nil", what)
			}
			if got := k.Recvs - before; got != recvs {
				return fmt.Errorf("%s: %d receive calls, want %d", what, got, recvs)
			}
			pending = pending[consumed:] // read once, gone: later calls go on with the next request
			waits++
			hC17.Class("waitacks-with-answer-of-another-type")
			return nil
		}
		if hardHit {
			if err == nil {
				return fmt.Errorf("%s: a receive failed for good before all pending ACKs were read, but the call returned nil", what)
			}
			if got := k.Recvs - before; got != recvs {
				return fmt.Errorf("%s: %d receive calls, want %d", what, got, recvs)
			}
			pending = pending[consumed:]
			waits++
			hC17.Class("waitacks-with-hard-receive-failure")
			return nil
		}
		switch {
		case wantErrno != 0 && !errors.Is(err, syscall.Errno(wantErrno)):
			return fmt.Errorf("%s: returned %v, the first pending ACK with an error carries errno %d (%v)", what, err, wantErrno, syscall.Errno(wantErrno))
		case wantErrno == 0 && err != nil:
			return fmt.Errorf("%s: returned %v although all %d pending ACKs carry errno 0 (ACKs consumed by an earlier call must not be waited for again)", what, err, len(pending))
		}
		if got := k.Recvs - before; got != recvs {
			return fmt.Errorf("%s: %d receive calls, want %d (one per ACK consumed incl. %d skipped events; none when nothing is pending)", what, got, recvs, recvs-consumed)
		}
		pending = pending[consumed:]
		waits++
		return nil
	}
	for i, o := range c.Ops {
		what := fmt.Sprintf("op %d %s", i, o.K)
		switch o.K {
		case "nowait", "setpid":
			k.OnSend = nil
			k.Queue = nil
			before := k.Recvs
			var err error
			if o.SendFail != 0 {
				k.SendErr = syscall.Errno(o.SendFail)
				err = c17Set(cl, o, libaudit.NoWait)
				k.SendErr = nil
				if err == nil {
					return fmt.Errorf("%s: the socket refused the request (errno %d) but the call returned nil", what, o.SendFail)
				}
				if k.Recvs != before {
					return fmt.Errorf("%s: a NoWait request performed %d receives", what, k.Recvs-before)
				}
				hC17.Class("nowait-request-refused-by-the-socket")
				continue // nothing went out: no acknowledgement will come, none may be waited for
			}
			if o.K == "setpid" {
				err = cl.SetPID(libaudit.NoWait)
				usedPID = true
			} else {
				err = c17Set(cl, o, libaudit.NoWait)
			}
			if err != nil {
				return fmt.Errorf("%s: NoWait request failed: %v", what, err)
			}
			if k.Recvs != before {
				return fmt.Errorf("%s: a NoWait request performed %d receives", what, k.Recvs-before)
			}
			if k.Seq == 0 {
				// the request numbered 0: unsolicited records carry that number too, so none are put in front of its
				// acknowledgement (nobody could tell them apart)
				o.Noise = 0
				hC17.Class("nowait-request-numbered-0")
			}
			pending = append(pending, pend{k.Seq, o.Errno, o.Noise, o.Eintr, o.Hard, o.BadType})
			nowaits++
			if o.Errno != 0 {
				errAmong = true
			}
		case "waitacks":
			if err := waitAcks(what); err != nil {
				return err
			}
		case "wait", "setpidwait":
			if len(pending) > 0 {
				// A synchronous request meets the ACKs of the NoWait requests first. The property does not say whether
				// it may work at all (this library reports the foreign sequence number), so a refusal ends the history.
				// But those ACKs are WaitForPendingACKs' to consume: a synchronous request that claims success has read
				// its own reply and left every one of them unread — a kernel refusal among them is still to be reported.
				plain := o.K == "wait" && o.Hard == 0 && k.Seq != 0 && k.Seq+1 != 0
				for _, p := range pending {
					if p.hard != 0 || p.bad != 0 || p.seq == 0 {
						plain = false
					}
				}
				if !plain {
					continue
				}
				k.OnSend = nil
				k.Queue = nil
				for _, p := range pending {
					k.Push(simk.Ack(p.seq, p.errno, uint16(uapi.A("AUDIT_SET"))))
				}
				k.OnSend = func(k *simk.K, s simk.Sent) { k.Push(simk.Ack(s.Seq, o.Errno, s.Type)) }
				err := c17Set(cl, Op17{Setter: o.Setter + 5, U32: o.U32}, libaudit.WaitForReply)
				k.OnSend = nil
				if err != nil {
					hC17.Class("synchronous-request-meets-pending-acks-and-says-so")
					return nil
				}
				if o.Errno != 0 {
					return fmt.Errorf("%s (with %d ACKs of NoWait requests unread): ack errno %d but result nil", what, len(pending), o.Errno)
				}
				if len(k.Queue) != len(pending) {
					return fmt.Errorf("%s: the synchronous request reported success and read %d of the %d acknowledgements that belong to NoWait requests (errnos %v): only WaitForPendingACKs consumes those, and it has to report the first kernel error among them",
						what, len(pending)-len(k.Queue), len(pending), func() (e []int) {
							for _, p := range pending {
								e = append(e, p.errno)
							}
							return
						}())
				}
				hC17.Class("synchronous-request-leaves-pending-acks-alone")
				continue
			}
			k.Queue = nil
			k.OnSend = func(k *simk.K, s simk.Sent) {
				if s.Seq != 0 { // (unsolicited records carry 0: in front of the reply to request 0 nobody could tell them apart)
					pushNoise(o.Noise)
				}
				k.Push(simk.Ack(s.Seq, o.Errno, s.Type))
			}
			if o.Hard != 0 {
				k.OnSend = func(k *simk.K, s simk.Sent) { k.Fail(syscall.Errno(o.Hard)) }
			}
			var err error
			if o.K == "setpidwait" {
				err = cl.SetPID(libaudit.WaitForReply)
				usedPID = true
			} else {
				err = c17Set(cl, Op17{Setter: o.Setter + 5, U32: o.U32}, libaudit.WaitForReply)
			}
			if o.Hard != 0 {
				if err == nil {
					return fmt.Errorf("%s: the read of the reply failed with errno %d and the call returned nil", what, o.Hard)
				}
				hC17.Class("synchronous-request-whose-reply-cannot-be-read")
				continue
			}
			if (o.Errno == 0) != (err == nil) {
				return fmt.Errorf("%s: ack errno %d but result %v", what, o.Errno, err)
			}
		case "getrules":
			if len(pending) > 0 {
				// the same for a request that returns data: the ACKs of the NoWait requests are in front of its
				// replies; GetRules either says so (end of the history) or has read its own replies only
				plain := k.Seq != 0 && k.Seq+1 != 0
				for _, p := range pending {
					if p.hard != 0 || p.bad != 0 || p.seq == 0 {
						plain = false
					}
				}
				if !plain {
					continue
				}
				k.OnSend = nil
				k.Queue = nil
				for _, p := range pending {
					k.Push(simk.Ack(p.seq, p.errno, uint16(uapi.A("AUDIT_SET"))))
				}
				k.OnSend = func(k *simk.K, s simk.Sent) {
					k.Push(simk.Ack(s.Seq, 0, s.Type))
					for _, r := range o.Rules {
						k.Push(simk.Msg(uint16(uapi.A("AUDIT_LIST_RULES")), syscall.NLM_F_MULTI, s.Seq, 0, r))
					}
					k.Push(simk.Msg(syscall.NLMSG_DONE, syscall.NLM_F_MULTI, s.Seq, 0, nil))
				}
				got, err := cl.GetRules()
				k.OnSend = nil
				if err != nil {
					hC17.Class("synchronous-request-meets-pending-acks-and-says-so")
					return nil
				}
				if len(got) != len(o.Rules) {
					return fmt.Errorf("%s (with %d ACKs of NoWait requests unread): %d rules returned, kernel sent %d", what, len(pending), len(got), len(o.Rules))
				}
				if len(k.Queue) != len(pending) {
					return fmt.Errorf("%s: GetRules reported success and read %d of the %d acknowledgements that belong to NoWait requests: only WaitForPendingACKs consumes those, and it has to report the first kernel error among them",
						what, len(pending)-len(k.Queue), len(pending))
				}
				hC17.Class("synchronous-request-leaves-pending-acks-alone")
				continue
			}
			k.Queue = nil
			k.OnSend = func(k *simk.K, s simk.Sent) {
				k.Push(simk.Ack(s.Seq, 0, s.Type))
				for _, r := range o.Rules {
					if s.Seq != 0 {
						pushNoise(o.Noise)
					}
					k.Push(simk.Msg(uint16(uapi.A("AUDIT_LIST_RULES")), syscall.NLM_F_MULTI, s.Seq, 0, r))
				}
				k.Push(simk.Msg(syscall.NLMSG_DONE, syscall.NLM_F_MULTI, s.Seq, 0, nil))
			}
			got, err := cl.GetRules()
			if err != nil {
				return fmt.Errorf("%s: %v", what, err)
			}
			if len(got) != len(o.Rules) {
				return fmt.Errorf("%s: %d rules returned, kernel sent %d", what, len(got), len(o.Rules))
			}
			sv := saved{got: got, op: i}
			for j, r := range got {
				if !bytes.Equal(r, o.Rules[j]) {
					return fmt.Errorf("%s: rule %d = %x, kernel sent %x", what, j, r, o.Rules[j])
				}
				sv.snap = append(sv.snap, append([]byte(nil), r...))
			}
			savedRules = append(savedRules, sv)
		}
		if err := checkSaved(what); err != nil {
			return err
		}
	}
	// Close, 0..4 times
	k.OnSend = nil
	k.Queue = nil
	sentBefore, recvBefore := len(k.Sent), k.Recvs
	sendsBefore := k.Sends
	logBefore := len(k.Log)
	if c.CloseSendErrno != 0 {
		k.SendErr = syscall.Errno(c.CloseSendErrno)
	}
	if c.CloseErrno != 0 {
		k.CloseErr = syscall.Errno(c.CloseErrno)
	}
	for j := 0; j < c.Closes; j++ {
		_ = cl.Close() // the return value of later calls is not specified
	}
	if c.Closes > 0 {
		if k.Closes != 1 {
			return fmt.Errorf("Close x %d: the socket was closed %d times, want exactly once", c.Closes, k.Closes)
		}
		sent := k.Sent[sentBefore:]
		if c.CloseSendErrno != 0 {
			// the request that clears the PID could not be sent; the socket must be closed all the same
			if want := map[bool]int{true: 1, false: 0}[usedPID]; k.Sends-sendsBefore != want {
				return fmt.Errorf("Close x %d (SetPID used: %v, sends fail): %d send attempts, want %d", c.Closes, usedPID, k.Sends-sendsBefore, want)
			}
			hC17.Class("history-close-with-failing-send")
		} else if usedPID {
			if len(sent) != 1 {
				return fmt.Errorf("Close x %d after SetPID: %d requests sent, want exactly one AUDIT_SET clearing the PID", c.Closes, len(sent))
			}
			s := sent[0]
			want := make([]byte, sizeofStatus)
			ne.PutUint32(want[offMask:], uapi.A("AUDIT_STATUS_PID"))
			if uint32(s.Type) != uapi.A("AUDIT_SET") || !bytes.Equal(s.Data, want) {
				return fmt.Errorf("Close after SetPID sent type %d payload %x, want AUDIT_SET with mask=PID and pid=0", s.Type, s.Data)
			}
			lg := k.Log[logBefore:]
			if len(lg) < 2 || lg[0] != "send" || lg[1] != "close" {
				return fmt.Errorf("Close after SetPID: kernel saw %v, want the PID to be cleared first and the socket closed right after", lg)
			}
		} else if len(sent) != 0 {
			return fmt.Errorf("Close without SetPID sent %d requests (type %d)", len(sent), sent[0].Type)
		}
		if k.Recvs != recvBefore {
			return fmt.Errorf("Close performed %d receives", k.Recvs-recvBefore)
		}
	}
	if c.Closes > 0 && c.AfterClose > 0 {
		if usedPID && c.CloseSendErrno == 0 {
			// the request by which Close cleared the PID was itself sent without waiting for its ACK
			pending = append(pending, pend{seq: k.Seq})
		}
		npend := len(pending)
		for j := 0; j < c.AfterClose; j++ {
			what := fmt.Sprintf("WaitForPendingACKs call %d after Close with %d ACKs still pending", j+1, len(pending))
			if c.ClosedReads {
				k.ClosedReadErr = syscall.EBADF
				before := k.Recvs
				err := cl.WaitForPendingACKs()
				if len(pending) > 0 && err == nil {
					return fmt.Errorf("%s: returned nil although no ACK could be read from the closed socket (%d receive calls)", what, k.Recvs-before)
				}
				if len(pending) == 0 && (err != nil || k.Recvs != before) {
					return fmt.Errorf("%s: returned %v after %d receive calls, want nil without any receive", what, err, k.Recvs-before)
				}
			} else if err := waitAcks(what); err != nil {
				return err
			}
		}
		if npend > 0 {
			hC17.Class("history-waitacks-after-close-with-pending")
		}
	}
	if c.Closes > 0 && len(c.Tail) > 0 {
		// the socket is closed: whatever is sent or read now fails, as on a real closed descriptor
		k.SendErr = syscall.EBADF
		k.ClosedReadErr = syscall.EBADF
		for j, op := range c.Tail {
			switch op {
			case "setpid":
				_ = cl.SetPID(libaudit.NoWait)
			case "setpidwait":
				_ = cl.SetPID(libaudit.WaitForReply)
			case "nowait":
				_ = cl.SetRateLimit(1, libaudit.NoWait)
			case "close":
				sends, recvs := k.Sends, k.Recvs
				_ = cl.Close()
				if k.Closes != 1 || k.Sends != sends || k.Recvs != recvs {
					return fmt.Errorf("call %d on the closed client (%v): this Close is not a no-op: socket closed %d times in all, %d send attempts and %d receives in this call", j, c.Tail[:j+1], k.Closes, k.Sends-sends, k.Recvs-recvs)
				}
				hC17.Class("history-close-after-calls-on-closed-client")
			}
		}
	}
	if err := checkSaved("after Close"); err != nil {
		return err
	}
	if errAmong {
		hC17.Class("history-with-error-among-acks")
	}
	if nowaits >= 60 {
		hC17.Class("history-with-60-or-more-nowait-requests")
	}
	if nowaits >= 2 && waits >= 2 {
		hC17.Class("history-with-2-nowait-and-2-waits")
	}
	if c.Closes >= 2 {
		hC17.Class("history-with-repeated-close")
	}
	if usedPID && c.Closes > 0 {
		hC17.Class("history-close-after-setpid")
	}
	if len(savedRules) > 0 {
		hC17.Class("history-with-getrules-then-traffic")
	}
	if errAmong || (nowaits >= 2 && waits >= 2) || c.Closes >= 2 {
		hC17.NonTrivial(hx.FP(c.Describe()), c.Describe)
	}
	return nil
}

func TestC17Regress(t *testing.T) { hx.Regress(t, hC17, "TestC17", propC17) }

func TestC17(t *testing.T) { hx.Check(t, hC17, "TestC17", genC17, propC17) }

// lockedK serialises the simulated kernel so that the race detector only sees
// races inside the client.
type lockedK struct {
	mu sync.Mutex
	k  *simk.K
}

func (l *lockedK) Send(m syscall.NetlinkMessage) (uint32, error) {
	l.mu.Lock()
	defer l.mu.Unlock()
	return l.k.Send(m)
}
func (l *lockedK) Receive(nb bool, p libaudit.NetlinkParser) ([]syscall.NetlinkMessage, error) {
	l.mu.Lock()
	defer l.mu.Unlock()
	return l.k.Receive(nb, p)
}
func (l *lockedK) Close() error {
	l.mu.Lock()
	defer l.mu.Unlock()
	return l.k.Close()
}

// TestC17ConcurrentClose: Close from 2..8 goroutines closes the socket exactly
// once and clears the PID at most once (run with -race).
func TestC17ConcurrentClose(t *testing.T) {
	n := hx.EnvInt("VERIF_N", 2000)
	for i := 0; i < n; i++ {
		g := 2 + i%7
		usePID := i%2 == 0
		lk := &lockedK{k: simk.New(1)}
		cl := &libaudit.AuditClient{Netlink: lk}
		if usePID {
			if err := cl.SetPID(libaudit.NoWait); err != nil {
				t.Fatalf("SetPID: %v", err)
			}
		}
		sentBefore := len(lk.k.Sent)
		hC17.BeginLimit("TestC17", C17Case{Closes: g}, 120*time.Second) // a round that never returns is a deadlock
		var wg sync.WaitGroup
		start := make(chan struct{})
		for j := 0; j < g; j++ {
			wg.Add(1)
			go func() {
				defer wg.Done()
				<-start
				_ = cl.Close()
			}()
		}
		close(start)
		wg.Wait()
		hC17.End()
		hC17.Eval()
		c := C17Case{Closes: g}
		if usePID {
			c.Ops = []Op17{{K: "setpid"}}
		}
		if lk.k.Closes != 1 {
			hC17.Fail(t, "TestC17ConcurrentClose", c, "%d goroutines called Close concurrently: the socket was closed %d times", g, lk.k.Closes)
		}
		want := 0
		if usePID {
			want = 1
		}
		if got := len(lk.k.Sent) - sentBefore; got != want {
			hC17.Fail(t, "TestC17ConcurrentClose", c, "%d goroutines called Close concurrently (SetPID used: %v): %d requests sent, want %d", g, usePID, got, want)
		}
		hC17.Class("concurrent-close")
		hC17.NonTrivial(hx.FP("cc", i), func() string { return fmt.Sprintf("concurrent Close from %d goroutines, SetPID used: %v", g, usePID) })
	}
}
