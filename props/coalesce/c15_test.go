package coalesce

import (
	"encoding/json"
	"fmt"
	"os"
	"os/user"
	"reflect"
	"sort"
	"strings"
	"sync"
	"testing"
	"time"

	"github.com/elastic/go-libaudit/v2/aucoalesce"
	"github.com/elastic/go-libaudit/v2/auparse"
	"pgregory.net/rapid"

	"verif/internal/hx"
	"verif/internal/kenc"
	"verif/internal/uapi"
)

// C15 — coalescing never panics, leaves its input messages intact, is
// repeatable, and events are independent of each other (also concurrently).

var hC15 = hx.New("C15", "rapid-generated pools of 2..6 message groups (events of the C09 builder and groups of arbitrary/damaged text) and histories of CoalesceMessages / ResolveIDs / ResolveIDsFromCaches calls over the pool, including repeated calls on the same messages while earlier events are kept; hard-coded users/groups. Oracle: no panic; deep snapshots of Data(), Tags(), ToMapStr() of every message are equal before and after every call; coalescing the same messages again gives a deeply equal event (warnings by text); every earlier event still equals its snapshot after any later call on other events; plus a concurrent form (goroutines over disjoint groups, shared global tables and caches, race detector) whose results must equal the sequential ones. Non-trivial = history in which a group with result/ses or EXECVE arguments is coalesced at least twice, or with >= 2 live events; distinct by hash of the history")

type Group struct {
	Recs []kenc.Rec `json:"recs,omitempty"`
	Raw  [][]byte   `json:"raw,omitempty"` // arbitrary text lines (type, text) pairs encoded as "TYPE\x00text"
}

type Op15 struct {
	K string `json:"k"` // coalesce, resolve, resolvecaches
	G int    `json:"g"` // group index
}

type C15Case struct {
	Groups []Group `json:"groups"`
	Ops    []Op15  `json:"ops"`
}

func (c C15Case) Describe() string {
	var b strings.Builder
	for i, g := range c.Groups {
		fmt.Fprintf(&b, "group %d:\n", i)
		for _, r := range g.Recs {
			fmt.Fprintf(&b, "  type=%s msg=%s\n", auparse.AuditMessageType(r.Type), r.Raw())
		}
		for _, r := range g.Raw {
			fmt.Fprintf(&b, "  raw %q\n", r)
		}
	}
	fmt.Fprintf(&b, "ops: %v\n", c.Ops)
	return b.String()
}

var rawTypes = []uint16{1300, 1302, 1306, 1309, 1327, 1400, 1112, 1105, 1006}

// hintedSyscalls: the syscalls whose normalisation says which PATH record the event is about (object_path_index
// above zero: mount, mkdir, rename ...), from the working tree's table.
var (
	hintedOnce sync.Once
	hinted     []string
)

func hintedSyscalls() []string {
	hintedOnce.Do(func() {
		b, err := os.ReadFile("/repo/aucoalesce/normalizations.yaml")
		if err != nil {
			return
		}
		syscalls, _, err := aucoalesce.LoadNormalizationConfig(b)
		if err != nil {
			return
		}
		for name, n := range syscalls {
			if _, ok := uapi.S.Syscalls["x86_64"][name]; ok && n.ObjectPathIndex > 0 {
				hinted = append(hinted, name)
			}
		}
		sort.Strings(hinted)
	})
	return hinted
}

func genGroup(rt *rapid.T, caseType uint16, caseSys string) Group {
	if caseSys != "" && rapid.IntRange(0, 3).Draw(rt, "hintedgroup") == 0 {
		// events of one and the same path-index syscall with fewer PATH records than the index, exactly as
		// many, and more: what one of them makes of the table entry they share must not reach the others
		tk := &tokens{n: 100 * rapid.IntRange(0, 9000).Draw(rt, "tokenbase")}
		recs := []kenc.Rec{genSyscallRecNamed(rt, tk, caseSys)}
		for i, n := 0, rapid.SampledFrom([]int{1, 2, 3, 4, 0, 5}).Draw(rt, "hintedpaths"); i < n; i++ {
			recs = append(recs, genPathRec(rt, tk, i))
		}
		seq := rapid.Uint32().Draw(rt, "seq")
		for i := range recs {
			recs[i].Sec, recs[i].Seq = 1700000000, seq
		}
		return Group{Recs: recs}
	}
	if rapid.IntRange(0, 4).Draw(rt, "rawgroup") == 0 {
		var g Group
		for i, n := 0, rapid.IntRange(1, 4).Draw(rt, "nraw"); i < n; i++ {
			typ := rapid.SampledFrom(rawTypes).Draw(rt, "rawtype")
			body := strings.Join(rapid.SliceOfN(rapid.SampledFrom([]string{"a=b", "argc=3", "a0=41", "a1=\"x\"", "saddr=0200", "saddr=02000050C0A80001", "res=failed", "ses=4",
				"result=x", "uid=0", "auid=1000", "pid=1", "key=\"k\"", "msg='op=x res=success'", "arch=c000003e", "syscall=59", "success=yes", "exit=0",
				"name=\"/x\"", "inode=5", "mode=040755", "proctitle=6C73002D6C", "subj=a:b:c", "\xff", "items=2", "ppid=1", "comm=\"c\"", "exe=\"/bin/x\""}), 0, 10).Draw(rt, "rawbody"), " ")
			g.Raw = append(g.Raw, []byte(fmt.Sprintf("%d\x00audit(1.000:%d): %s", typ, 5, body)))
		}
		return g
	}
	if rapid.IntRange(0, 2).Draw(rt, "kmodfirst") == 0 {
		// a record type with its own ECS categories in front of a SYSCALL record: the event gets the categories of
		// both normalisations, which is where events could end up sharing table storage
		tk := &tokens{n: 100 * rapid.IntRange(0, 9000).Draw(rt, "tokenbase")}
		var first kenc.Rec
		if caseType != 0 && rapid.IntRange(0, 3).Draw(rt, "tablefirst") != 0 {
			// a record type of the normalisation table that has ECS categories/types of its own; the same type
			// for all such groups of one history, so that events that share a table entry meet
			typ := caseType
			first = kenc.Rec{Type: typ, Fields: []kenc.F{kenc.P("pid", tk.num()), kenc.P("uid", tk.num()), kenc.P("auid", tk.num()), kenc.P("ses", tk.num())},
				User: []kenc.F{kenc.P("op", tk.s("op")), kenc.Q("acct", tk.s("acct")), kenc.P("res", "success")}}
		} else {
			first = genOtherRec(rt, tk, rapid.SampledFrom([]string{"kmod", "kmod", "avc", "apparmor"}).Draw(rt, "firstkind"), false)
		}
		sys := genSyscallRecNamed(rt, tk, rapid.SampledFrom([]string{"init_module", "finit_module", "delete_module", "open", "connect", "setuid", "nosuchsyscall"}).Draw(rt, "kmodsys"))
		recs := []kenc.Rec{first, sys}
		seq := rapid.Uint32().Draw(rt, "seq")
		for i := range recs {
			recs[i].Sec, recs[i].Seq = 1700000000, seq
		}
		return Group{Recs: recs}
	}
	recs := genC09(rt).Recs
	if len(recs) > 1 && rapid.IntRange(0, 3).Draw(rt, "eoeinside") == 0 {
		// an end-of-event marker that is not the last record (a record arrived late)
		pos := rapid.IntRange(0, len(recs)-1).Draw(rt, "eoepos")
		e := kenc.Rec{Type: 1320, Sec: recs[0].Sec, Ms: recs[0].Ms, Seq: recs[0].Seq}
		recs = append(append(append([]kenc.Rec{}, recs[:pos]...), e), recs[pos:]...)
	}
	return Group{Recs: recs}
}

var (
	ecsTypesOnce sync.Once
	ecsTypes     []uint16
)

// ecsRecordTypes lists the record types whose normalisation carries ECS categories or types (read from the
// working tree's normalizations.yaml through the exported loader).
func ecsRecordTypes() []uint16 {
	ecsTypesOnce.Do(func() {
		b, err := os.ReadFile("/repo/aucoalesce/normalizations.yaml")
		if err != nil {
			return
		}
		_, recordTypes, err := aucoalesce.LoadNormalizationConfig(b)
		if err != nil {
			return
		}
		var names []string
		for name, norms := range recordTypes {
			for _, n := range norms {
				if len(n.ECS.Category.Values)+len(n.ECS.Type.Values) > 0 {
					names = append(names, name)
					break
				}
			}
		}
		sort.Strings(names)
		for _, name := range names {
			if t, err := auparse.GetAuditMessageType(name); err == nil && t != auparse.AUDIT_SYSCALL {
				ecsTypes = append(ecsTypes, uint16(t))
			}
		}
	})
	return ecsTypes
}

func genC15(rt *rapid.T) C15Case {
	var c C15Case
	var caseType uint16
	if types := ecsRecordTypes(); len(types) > 0 {
		caseType = rapid.SampledFrom(types).Draw(rt, "casefirsttype")
	}
	caseSys := ""
	if hs := hintedSyscalls(); len(hs) > 0 && rapid.Bool().Draw(rt, "hintedcase") {
		caseSys = rapid.SampledFrom(hs).Draw(rt, "casesyscall")
	}
	for i, n := 0, rapid.IntRange(2, 6).Draw(rt, "ngroups"); i < n; i++ {
		c.Groups = append(c.Groups, genGroup(rt, caseType, caseSys))
	}
	for i, n := 0, rapid.IntRange(2, 12).Draw(rt, "nops"); i < n; i++ {
		c.Ops = append(c.Ops, Op15{K: rapid.SampledFrom([]string{"coalesce", "coalesce", "coalesce", "resolve", "resolvecaches"}).Draw(rt, "k"),
			G: rapid.IntRange(0, len(c.Groups)-1).Draw(rt, "g")})
	}
	return c
}

func (g Group) parse() []*auparse.AuditMessage {
	var msgs []*auparse.AuditMessage
	for _, r := range g.Recs {
		if m, err := auparse.Parse(auparse.AuditMessageType(r.Type), r.Raw()); err == nil {
			msgs = append(msgs, m)
		}
	}
	for _, r := range g.Raw {
		parts := strings.SplitN(string(r), "\x00", 2)
		var typ int
		fmt.Sscanf(parts[0], "%d", &typ)
		if m, err := auparse.Parse(auparse.AuditMessageType(typ), parts[1]); err == nil {
			msgs = append(msgs, m)
		}
	}
	return msgs
}

type msgSnap struct {
	Data   map[string]string
	DErr   string
	Tags   []string
	MapStr map[string]any
}

func snapMsg(m *auparse.AuditMessage) msgSnap {
	var s msgSnap
	d, err := m.Data()
	if d != nil {
		s.Data = map[string]string{}
		for k, v := range d {
			s.Data[k] = v
		}
	}
	if err != nil {
		s.DErr = err.Error()
	}
	tg, _ := m.Tags()
	s.Tags = append([]string(nil), tg...)
	s.MapStr = map[string]any{}
	for k, v := range m.ToMapStr() {
		if sl, ok := v.([]string); ok {
			v = append([]string(nil), sl...)
		}
		s.MapStr[k] = v
	}
	return s
}

// evSnap is a deep, comparable copy of an event (warnings by text).
type evSnap struct {
	Ev       aucoalesce.Event
	Warnings []string
}

func deepCopyMap(m map[string]string) map[string]string {
	if m == nil {
		return nil
	}
	o := make(map[string]string, len(m))
	for k, v := range m {
		o[k] = v
	}
	return o
}

func snapEvent(e *aucoalesce.Event) evSnap {
	if e == nil {
		return evSnap{}
	}
	c := *e
	c.Tags = append([]string(nil), e.Tags...)
	c.Data = deepCopyMap(e.Data)
	c.Paths = nil
	for _, p := range e.Paths {
		c.Paths = append(c.Paths, deepCopyMap(p))
	}
	c.User.IDs, c.User.Names, c.User.SELinux = deepCopyMap(e.User.IDs), deepCopyMap(e.User.Names), deepCopyMap(e.User.SELinux)
	c.Process.Args = append([]string(nil), e.Process.Args...)
	if e.File != nil {
		f := *e.File
		f.SELinux = deepCopyMap(e.File.SELinux)
		c.File = &f
	}
	if e.Source != nil {
		a := *e.Source
		c.Source = &a
	}
	if e.Dest != nil {
		a := *e.Dest
		c.Dest = &a
	}
	if e.Net != nil {
		n := *e.Net
		c.Net = &n
	}
	c.ECS.Event.Category = append([]string(nil), e.ECS.Event.Category...)
	c.ECS.Event.Type = append([]string(nil), e.ECS.Event.Type...)
	s := evSnap{}
	for _, w := range e.Warnings {
		s.Warnings = append(s.Warnings, w.Error())
	}
	sort.Strings(s.Warnings) // warnings are produced while ranging over maps: their order carries no meaning
	c.Warnings = nil
	s.Ev = c
	return s
}

func eqSnap(a, b evSnap) bool {
	norm := func(s evSnap) evSnap {
		// nil and empty containers are the same to a user of the event
		if len(s.Ev.Tags) == 0 {
			s.Ev.Tags = nil
		}
		if len(s.Ev.Paths) == 0 {
			s.Ev.Paths = nil
		}
		if len(s.Ev.Process.Args) == 0 {
			s.Ev.Process.Args = nil
		}
		if len(s.Ev.ECS.Event.Category) == 0 {
			s.Ev.ECS.Event.Category = nil
		}
		if len(s.Ev.ECS.Event.Type) == 0 {
			s.Ev.ECS.Event.Type = nil
		}
		return s
	}
	return reflect.DeepEqual(norm(a), norm(b))
}

var hardcodeOnce sync.Once

func hardcode() {
	hardcodeOnce.Do(func() {
		aucoalesce.HardcodeUsers(user.User{Uid: "1000", Username: "alice"}, user.User{Uid: "70004", Username: "tok4"}, user.User{Uid: "70012", Username: "tok12"})
		aucoalesce.HardcodeGroups(user.Group{Gid: "1000", Name: "staff"}, user.Group{Gid: "70013", Name: "tg13"})
	})
}

func propC15(c C15Case) error {
	hardcode()
	users, groups := aucoalesce.NewUserCache(time.Hour), aucoalesce.NewGroupCache(time.Hour)
	type pool struct {
		msgs   []*auparse.AuditMessage
		ptrs   []*auparse.AuditMessage // copy of the slice contents: the caller's slice must not be rearranged
		snaps  []msgSnap
		first  *evSnap // first coalescing result
		ferr   string
		live   []*aucoalesce.Event
		lsnaps []evSnap
		count  int
	}
	pools := make([]*pool, len(c.Groups))
	for i, g := range c.Groups {
		p := &pool{msgs: g.parse()}
		p.ptrs = append([]*auparse.AuditMessage(nil), p.msgs...)
		for _, m := range p.msgs {
			p.snaps = append(p.snaps, snapMsg(m))
		}
		pools[i] = p
	}
	checkAll := func(at string) error {
		for gi, p := range pools {
			if len(p.msgs) != len(p.ptrs) {
				return fmt.Errorf("%s\n  %s: the message slice of group %d changed its length", c.Describe(), at, gi)
			}
			for mi := range p.msgs {
				if p.msgs[mi] != p.ptrs[mi] {
					return fmt.Errorf("%s\n  %s: the caller's message slice of group %d was rearranged: position %d now holds another message (type %v)", c.Describe(), at, gi, mi, p.msgs[mi].RecordType)
				}
			}
			for mi, m := range p.msgs {
				if now := snapMsg(m); !reflect.DeepEqual(now, p.snaps[mi]) {
					return fmt.Errorf("%s\n  %s: message %d of group %d reports something else than before:\n   before %+v\n   after  %+v", c.Describe(), at, mi, gi, p.snaps[mi], now)
				}
			}
			for ei, e := range p.live {
				if now := snapEvent(e); !eqSnap(now, p.lsnaps[ei]) {
					return fmt.Errorf("%s\n  %s: a previously returned event of group %d changed:\n   before %+v\n   after  %+v", c.Describe(), at, gi, p.lsnaps[ei], now)
				}
			}
		}
		return nil
	}
	repeated, liveEvents := false, 0
	for oi, o := range c.Ops {
		p := pools[o.G]
		at := fmt.Sprintf("op %d %s(group %d)", oi, o.K, o.G)
		switch o.K {
		case "coalesce":
			ev, err := aucoalesce.CoalesceMessages(p.msgs)
			s := snapEvent(ev)
			es := ""
			if err != nil {
				es = err.Error()
			}
			if p.count == 0 {
				p.first, p.ferr = &s, es
			} else {
				if es != p.ferr || !eqSnap(s, *p.first) {
					return fmt.Errorf("%s\n  %s: coalescing the same messages again gives a different result:\n   first %+v (err %q)\n   now   %+v (err %q)", c.Describe(), at, *p.first, p.ferr, s, es)
				}
				for _, m := range p.snaps {
					if _, ok := m.Data["result"]; ok {
						repeated = true
					}
					if _, ok := m.Data["a0"]; ok {
						repeated = true
					}
				}
			}
			p.count++
			if ev != nil {
				p.live = append(p.live, ev)
				p.lsnaps = append(p.lsnaps, s)
				liveEvents++
			}
		case "resolve", "resolvecaches":
			if len(p.live) == 0 {
				continue
			}
			ev := p.live[len(p.live)-1]
			if o.K == "resolve" {
				aucoalesce.ResolveIDs(ev)
			} else {
				aucoalesce.ResolveIDsFromCaches(ev, users, groups)
			}
			p.lsnaps[len(p.lsnaps)-1] = snapEvent(ev) // this event was meant to change
		}
		if err := checkAll(at); err != nil {
			return err
		}
	}
	if repeated {
		hC15.Class("history-with-repeated-coalescing-of-stateful-group")
	}
	if liveEvents >= 2 {
		hC15.Class("history-with-2-live-events")
	}
	if repeated || liveEvents >= 2 {
		hC15.NonTrivial(hx.FP(c.Describe()), c.Describe)
	}
	return nil
}

func TestC15Regress(t *testing.T) { hx.Regress(t, hC15, "TestC15", propC15) }

func TestC15(t *testing.T) { hx.Check(t, hC15, "TestC15", genC15, propC15) }

// TestC15Concurrent: goroutines coalesce and resolve disjoint groups at the same
// time (shared normalisation tables and ID caches); results must equal the
// sequentially computed ones. Run with -race.
func TestC15Concurrent(t *testing.T) {
	hardcode()
	rounds := hx.EnvInt("VERIF_N", 300)
	// a deterministic set of groups drawn with rapid's example generator
	gen := rapid.Custom(func(rt *rapid.T) C09Case { return genC09(rt) })
	for r := 0; r < rounds; r++ {
		const G = 8
		cases := make([]C09Case, G)
		for i := range cases {
			cases[i] = gen.Example(int(hx.Seed())*100000 + r*G + i)
		}
		// concurrent phase first: the shared ID caches are cold for this round's ids
		hC15.BeginLimit("TestC15", cases[0], 120*time.Second) // a round that never returns is a deadlock
		got := make([]evSnap, G)
		gerr := make([]string, G)
		var wg sync.WaitGroup
		start := make(chan struct{})
		for i := range cases {
			wg.Add(1)
			go func(i int) {
				defer wg.Done()
				msgs := Group{Recs: cases[i].Recs}.parse()
				<-start
				for rep := 0; rep < 3; rep++ {
					ev, err := aucoalesce.CoalesceMessages(msgs)
					if ev != nil {
						aucoalesce.ResolveIDs(ev)
					}
					got[i] = snapEvent(ev)
					gerr[i] = ""
					if err != nil {
						gerr[i] = err.Error()
					}
				}
			}(i)
		}
		close(start)
		wg.Wait()
		hC15.End()
		want := make([]evSnap, G)
		werr := make([]string, G)
		for i, c := range cases {
			msgs := Group{Recs: c.Recs}.parse()
			ev, err := aucoalesce.CoalesceMessages(msgs)
			if ev != nil {
				aucoalesce.ResolveIDs(ev)
			}
			want[i] = snapEvent(ev)
			if err != nil {
				werr[i] = err.Error()
			}
		}
		hC15.Eval()
		for i := range cases {
			if gerr[i] != werr[i] || !eqSnap(got[i], want[i]) {
				hC15.Fail(t, "TestC15Concurrent", C15Case{Groups: []Group{{Recs: cases[i].Recs}}, Ops: []Op15{{K: "coalesce"}, {K: "resolve"}}},
					"concurrent coalescing of group %d gives a result that differs from the sequential one:\n sequential %+v (err %q)\n concurrent %+v (err %q)", i, want[i], werr[i], got[i], gerr[i])
			}
		}
		hC15.Class("concurrent-round")
		hC15.NonTrivial(hx.FP("concurrent", r), func() string {
			return fmt.Sprintf("concurrent round %d: %d goroutines x 3 coalesce+resolve\n%s", r, G, cases[0].Describe())
		})
	}
}

// TestC15SameID: eight goroutines, each with an event of its own, resolve the *same* ids at the same moment
// through caches that have never seen them (a fresh pair of caches per round) — ids this machine really has
// accounts for (every uid and gid up to 200 and 65534 that os/user resolves; 0 is preloaded by the library and is
// left out), so that the answer is a name and a lookup is in flight while the others ask. Afterwards the same
// events are resolved one after the other through another fresh pair: the outcome for a message does not depend on
// who else was resolving ids.
func TestC15SameID(t *testing.T) {
	rounds := hx.EnvInt("VERIF_N", 300)
	var uids, gids []int
	for _, id := range append(func() (r []int) {
		for i := 1; i <= 200; i++ {
			r = append(r, i)
		}
		return
	}(), 65534, 1000, 999, 998) {
		if u, err := user.LookupId(fmt.Sprint(id)); err == nil && u.Username != "" {
			uids = append(uids, id)
		}
		if g, err := user.LookupGroupId(fmt.Sprint(id)); err == nil && g.Name != "" {
			gids = append(gids, id)
		}
	}
	if len(uids) == 0 || len(gids) == 0 {
		t.Logf("this machine has no accounts besides root: stage not applicable")
		return
	}
	const G = 8
	event := func(seq, uid, gid int) *aucoalesce.Event {
		m, err := auparse.ParseLogLine(fmt.Sprintf(`type=SYSCALL msg=audit(1700000000.000:%d): arch=c000003e syscall=2 success=yes exit=3 a0=1 a1=2 a2=3 a3=4 items=0 ppid=1 pid=%d auid=%d uid=%d gid=%d euid=%d suid=%d fsuid=%d egid=%d sgid=%d fsgid=%d tty=pts0 ses=1 comm="c" exe="/bin/c" key=(null)`,
			seq, seq, uid, uid, gid, uid, uid, uid, gid, gid, gid))
		if err != nil {
			t.Fatalf("harness: %v", err)
		}
		ev, err := aucoalesce.CoalesceMessages([]*auparse.AuditMessage{m})
		if err != nil {
			t.Fatalf("harness: %v", err)
		}
		return ev
	}
	for r := 0; r < rounds; r++ {
		uid, gid := uids[r%len(uids)], gids[(r/len(uids)+r)%len(gids)]
		hC15.BeginLimit("TestC15", C15Case{}, 120*time.Second)
		users, groups := aucoalesce.NewUserCache(time.Hour), aucoalesce.NewGroupCache(time.Hour)
		got := make([]string, G)
		var wg sync.WaitGroup
		start := make(chan struct{})
		for g := 0; g < G; g++ {
			wg.Add(1)
			go func(g int) {
				defer wg.Done()
				ev := event(10*r+g, uid, gid)
				<-start
				aucoalesce.ResolveIDsFromCaches(ev, users, groups)
				b, _ := json.Marshal(ev)
				got[g] = string(b)
			}(g)
		}
		close(start)
		wg.Wait()
		hC15.End()
		users2, groups2 := aucoalesce.NewUserCache(time.Hour), aucoalesce.NewGroupCache(time.Hour)
		for g := 0; g < G; g++ {
			hC15.Eval()
			ev := event(10*r+g, uid, gid)
			aucoalesce.ResolveIDsFromCaches(ev, users2, groups2)
			b, _ := json.Marshal(ev)
			if string(b) != got[g] {
				hC15.Fail(t, "TestC15", C15Case{}, "an event with uid %d and gid %d whose ids were resolved while 7 other goroutines resolved the same ids for events of their own (caches that had not seen the ids) is\n  %s\nand resolved alone\n  %s", uid, gid, got[g], b)
				return
			}
			if len(ev.User.Names) > 0 {
				hC15.Class("same-id-first-sight-resolved-to-a-name")
			}
		}
	}
}

// TestC15CacheChurn: thousands of unrelated ids between two resolutions of the same messages. A message with
// hard-coded accounts (alice, staff), with root and with ids nobody knows is coalesced and resolved — through
// the package's shared caches and through caches of its own — then 1500 (thorough: 20000) events with ids
// never seen before are resolved, then the first messages again: the two results must be equal.
func TestC15CacheChurn(t *testing.T) {
	hardcode()
	n := 1500
	if hx.Thorough() {
		n = 20000
	}
	line := func(seq int, uid, gid, auid int) []*auparse.AuditMessage {
		m, err := auparse.ParseLogLine(fmt.Sprintf(`type=SYSCALL msg=audit(1700000000.000:%d): arch=c000003e syscall=2 success=yes exit=3 a0=1 a1=2 a2=3 a3=4 items=0 ppid=1 pid=2 auid=%d uid=%d gid=%d euid=%d suid=0 fsuid=%d egid=%d sgid=0 fsgid=%d tty=pts0 ses=1 comm="c" exe="/bin/c" key=(null)`, seq, auid, uid, gid, uid, uid, gid, gid))
		if err != nil {
			t.Fatalf("harness: %v", err)
		}
		return []*auparse.AuditMessage{m}
	}
	resolve := func(msgs []*auparse.AuditMessage, u, g *aucoalesce.EntityCache) evSnap {
		ev, err := aucoalesce.CoalesceMessages(msgs)
		if err != nil {
			t.Fatalf("harness: %v", err)
		}
		if u != nil {
			aucoalesce.ResolveIDsFromCaches(ev, u, g)
		} else {
			aucoalesce.ResolveIDs(ev)
		}
		return snapEvent(ev)
	}
	users, groups := aucoalesce.NewUserCache(time.Hour), aucoalesce.NewGroupCache(time.Hour)
	subjects := [][]*auparse.AuditMessage{line(1, 1000, 1000, 0), line(2, 0, 0, 1000), line(3, 70004, 70013, 4000000001)}
	var before, beforeOwn []evSnap
	for _, s := range subjects {
		before, beforeOwn = append(before, resolve(s, nil, nil)), append(beforeOwn, resolve(s, users, groups))
	}
	hC15.BeginLimit("TestC15", C15Case{}, 300*time.Second)
	for i := 0; i < n; i++ {
		msgs := line(100+i, 3000000+3*i, 3000001+3*i, 3000002+3*i)
		resolve(msgs, nil, nil)
		resolve(msgs, users, groups)
		hC15.Eval()
	}
	hC15.End()
	for i, s := range subjects {
		for which, pair := range [][2]evSnap{{before[i], resolve(s, nil, nil)}, {beforeOwn[i], resolve(s, users, groups)}} {
			if !eqSnap(pair[0], pair[1]) {
				hC15.Fail(t, "TestC15CacheChurn", C15Case{}, "message %d resolved before and after %d events with ids never seen before (%s caches) differs:\n before %+v\n after  %+v", i, n, []string{"shared", "own"}[which], pair[0], pair[1])
			}
		}
	}
	hC15.Class("cache-churn")
}

// TestC15TableIsolation: for every syscall of the normalisation table, in a process whose tables are still as
// loaded: a well-furnished event of that syscall (four PATH records, CWD) is coalesced, then poorer events of the
// same syscall (no PATH record, one, two), then the first messages again — the two results must be equal.
// (What an event makes of the table entry it is normalised with must not reach other events; a random history
// meets each entry's first poor event only once per process, and rarely right between two looks at a rich one.)
func TestC15TableIsolation(t *testing.T) {
	hardcode()
	names := normSyscalls()
	if len(names) == 0 {
		t.Skip("no normalisation table")
	}
	event := func(name string, seq, npaths int) []*auparse.AuditMessage {
		num := uapi.S.Syscalls["x86_64"][name]
		lines := []string{fmt.Sprintf(`type=SYSCALL msg=audit(1700000000.000:%d): arch=c000003e syscall=%d success=yes exit=0 a0=1 a1=2 a2=3 a3=4 items=%d ppid=1 pid=2 auid=1000 uid=0 gid=0 euid=0 suid=0 fsuid=0 egid=0 sgid=0 fsgid=0 tty=pts0 ses=1 comm="c" exe="/bin/c" key=(null)`, seq, num, npaths),
			fmt.Sprintf(`type=CWD msg=audit(1700000000.000:%d): cwd="/work"`, seq)}
		for i := 0; i < npaths; i++ {
			lines = append(lines, fmt.Sprintf(`type=PATH msg=audit(1700000000.000:%d): item=%d name="/p/%s/%d" inode=%d dev=fd:01 mode=0100644 ouid=%d ogid=%d rdev=00:00 nametype=%s`, seq, i, name, i, 100+i, i, i, []string{"NORMAL", "CREATE", "NORMAL", "DELETE"}[i%4]))
		}
		var msgs []*auparse.AuditMessage
		for _, l := range lines {
			m, err := auparse.ParseLogLine(l)
			if err != nil {
				t.Fatalf("harness: %v", err)
			}
			msgs = append(msgs, m)
		}
		return msgs
	}
	for i, name := range names {
		rich := event(name, 10*i, 4)
		ev, err := aucoalesce.CoalesceMessages(rich)
		if err != nil {
			continue
		}
		before := snapEvent(ev)
		for j, np := range []int{0, 1, 2, 3} {
			if poor, err := aucoalesce.CoalesceMessages(event(name, 10*i+1+j, np)); err == nil {
				aucoalesce.ResolveIDs(poor)
			}
		}
		ev2, err := aucoalesce.CoalesceMessages(event(name, 10*i, 4))
		hC15.Eval()
		if err != nil || !eqSnap(before, snapEvent(ev2)) {
			hC15.Fail(t, "TestC15TableIsolation", C15Case{}, "syscall %s: an event with four PATH records coalesced before and after events of the same syscall with 0..3 PATH records differs (err %v):\n before %+v\n after  %+v", name, err, before, snapEvent(ev2))
		}
	}
	hC15.Class("table-isolation-sweep")
}

// TestC15FirstSight: things seen for the first time, by many goroutines at once. Each goroutine coalesces single
// records and small groups of record types, syscall numbers, architectures and ids that nobody in this process
// has seen before (its own range of each), so that whatever the library learns or caches on first sight it
// learns under concurrency. Afterwards the same inputs are coalesced again sequentially: equal results. Run
// plain and under the race detector; a fatal "concurrent map" error takes the process down and is reported from
// the crash file.
func TestC15FirstSight(t *testing.T) {
	rounds := hx.EnvInt("VERIF_N", 40)
	const G = 8
	for r := 0; r < rounds; r++ {
		c := C09Case{}
		hC15.BeginLimit("TestC15", c, 120*time.Second)
		type in struct {
			typ  uint16
			body string
			sys  string
		}
		inputs := make([][]in, G)
		for g := 0; g < G; g++ {
			for i := 0; i < 25; i++ {
				n := r*G*25 + g*25 + i
				typ := uint16(2500 + n%60000)                                                        // a record type without a name, a new one each time
				id := 100000 + n                                                                     // a uid/gid nobody resolved before
				sysno, arch := 3000+n, []string{"c000003e", "40000003", "c00000b7", "deadbeef"}[n%4] // numbers without a name
				inputs[g] = append(inputs[g], in{typ, fmt.Sprintf("pid=%d uid=%d auid=%d ses=%d msg='op=x%d acct=\"a%d\" res=success'", n, id, id+1, n, n, n),
					fmt.Sprintf("arch=%s syscall=%d success=yes exit=0 a0=0 a1=0 a2=0 a3=0 items=0 ppid=1 pid=%d auid=%d uid=%d gid=%d euid=%d suid=%d fsuid=%d egid=%d sgid=%d fsgid=%d tty=pts1 ses=%d comm=\"c%d\" exe=\"/x%d\" key=(null)", arch, sysno, n, id, id, id+2, id, id, id, id+2, id+2, id+2, n, n, n)})
			}
		}
		run := func(x in) (string, string) {
			var out [2]string
			for k, msgs := range [][2]string{{fmt.Sprint(x.typ), x.body}, {"1300", x.sys}} {
				var typ uint16
				fmt.Sscan(msgs[0], &typ)
				m, err := auparse.Parse(auparse.AuditMessageType(typ), "audit(1700000000.000:"+fmt.Sprint(100+k)+"): "+msgs[1])
				if err != nil {
					out[k] = "parse error " + err.Error()
					continue
				}
				ev, err := aucoalesce.CoalesceMessages([]*auparse.AuditMessage{m})
				if ev != nil {
					aucoalesce.ResolveIDs(ev)
				}
				b, _ := json.Marshal(ev)
				out[k] = fmt.Sprintf("%s %v %v | %s", b, err, m.RecordType.String(), fmt.Sprint(m.ToMapStr()))
			}
			return out[0], out[1]
		}
		got := make([][][2]string, G)
		var wg sync.WaitGroup
		start := make(chan struct{})
		for g := 0; g < G; g++ {
			wg.Add(1)
			go func(g int) {
				defer wg.Done()
				<-start
				for _, x := range inputs[g] {
					a, b := run(x)
					got[g] = append(got[g], [2]string{a, b})
				}
			}(g)
		}
		close(start)
		wg.Wait()
		hC15.End()
		for g := 0; g < G; g++ {
			for i, x := range inputs[g] {
				hC15.Eval()
				a, b := run(x)
				if a != got[g][i][0] || b != got[g][i][1] {
					hC15.Fail(t, "TestC15", c, "a record of type %d (and a SYSCALL record with numbers nobody had seen) coalesced for the first time while 7 other goroutines did the same gives\n  %s\n  %s\nand sequentially afterwards\n  %s\n  %s", x.typ, got[g][i][0], got[g][i][1], a, b)
				}
			}
		}
		hC15.Class("first-sight-round")
	}
}
