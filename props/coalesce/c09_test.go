// Package coalesce holds the checks of the coalescing properties C09 C15.
package coalesce

import (
	"encoding/json"
	"fmt"
	"os"
	"sort"
	"strconv"
	"strings"
	"sync"
	"testing"

	"github.com/elastic/go-libaudit/v2/aucoalesce"
	"github.com/elastic/go-libaudit/v2/auparse"
	"pgregory.net/rapid"

	"verif/internal/hx"
	"verif/internal/kenc"
	"verif/internal/recgen"
	"verif/internal/uapi"
)

func TestMain(m *testing.M) { hx.Main(m) }

// C09 — coalescing keeps every record's fields, the event identity and file facts.

var hC09 = hx.New("C09", "rapid-generated events written by the kernel-style encoder: single records of any type (user-space and kernel shapes) and SYSCALL groups with any subset and order of CWD, PATH x 0..4 (all nametypes, modes of all seven file types), EXECVE, SOCKADDR (inet/inet6/unix), PROCTITLE, AVC (SELinux and AppArmor shapes) and other kernel records, deliberate key collisions, optional trailing EOE, degenerate groups (empty, EOE only, several records without SYSCALL); every field value is a unique token (taint tracking) except fixed vocabularies, which are checked by key; separately an exhaustive sweep of all 65536 st_mode values on the selected PATH record. Oracle: identity from the first record; every (key, value) of every record's Data() must be found among the string leaves of the event (or a warning names the key / the record); File must mirror one PATH record entirely and the object type must agree with S_IFMT. Non-trivial = compound group with >= 3 records incl. a PATH or a key collision, or a mode of one of the seven valid file types in the sweep; distinct by hash of the records")

type C09Case struct {
	Recs []kenc.Rec `json:"recs"`
}

func (c C09Case) Describe() string {
	var b strings.Builder
	for _, r := range c.Recs {
		fmt.Fprintf(&b, "type=%s msg=%s\n", auparse.AuditMessageType(r.Type), r.Raw())
	}
	return b.String()
}

type tokens struct{ n int }

func (t *tokens) s(prefix string) string { t.n++; return fmt.Sprintf("%s%d", prefix, 70000+t.n) }
func (t *tokens) num() string            { t.n++; return strconv.Itoa(70000 + t.n) }

// (rapid favours the front of a list: the syscalls whose normalisation names a PATH record other than the first
// come first)
var sysNames = []string{"mkdir", "rename", "mount", "renameat", "mkdirat", "renameat2", "open", "openat", "execve", "connect", "accept", "bind", "unlink", "chmod", "setuid", "kill", "ptrace",
	"socket", "sendto", "recvfrom", "mknod", "symlink", "chown", "init_module", "setxattr", "umount2", "clock_settime", "sethostname",
	"link", "linkat", "rmdir", "creat", "truncate"}

var modeChoices = []uint32{0o100644, 0o100755, 0o104755, 0o040755, 0o041777, 0o020620, 0o060660, 0o120777, 0o140755, 0o010644}

func genSyscallRec(rt *rapid.T, tk *tokens) kenc.Rec {
	if all := normSyscalls(); len(all) > 0 && rapid.Bool().Draw(rt, "anynormalisedsyscall") {
		// every syscall the normalisation table names (its entry decides which PATH record, which address,
		// which object kind the event is about)
		// (rapid favours small numbers; the multiplication scatters them over the whole list)
		return genSyscallRecNamed(rt, tk, all[int((uint64(rapid.Uint32().Draw(rt, "sysidx"))*0x9E3779B1>>7)%uint64(len(all)))])
	}
	return genSyscallRecNamed(rt, tk, rapid.SampledFrom(sysNames).Draw(rt, "sysname"))
}

var pathHintOnce sync.Once
var pathHintMap map[string]int

// pathHints: object_path_index of every syscall normalisation about a file or file system that has one
func pathHints() map[string]int {
	pathHintOnce.Do(func() {
		pathHintMap = map[string]int{}
		b, err := os.ReadFile("/repo/aucoalesce/normalizations.yaml")
		if err != nil {
			return
		}
		syscalls, _, err := aucoalesce.LoadNormalizationConfig(b)
		if err != nil {
			return
		}
		for name, n := range syscalls {
			if n.ObjectPathIndex > 0 && (n.ObjectWhat == "file" || n.ObjectWhat == "filesystem") {
				pathHintMap[name] = n.ObjectPathIndex
			}
		}
	})
	return pathHintMap
}

var normSysOnce sync.Once
var normSysList []string

// normSyscalls lists the syscall names of the normalisation table that the x86_64 table knows.
func normSyscalls() []string {
	normSysOnce.Do(func() {
		b, err := os.ReadFile("/repo/aucoalesce/normalizations.yaml")
		if err != nil {
			return
		}
		syscalls, _, err := aucoalesce.LoadNormalizationConfig(b)
		if err != nil {
			return
		}
		for name := range syscalls {
			if _, ok := uapi.S.Syscalls["x86_64"][name]; ok {
				normSysList = append(normSysList, name)
			}
		}
		sort.Strings(normSysList)
	})
	return normSysList
}

func genSyscallRecNamed(rt *rapid.T, tk *tokens, name string) kenc.Rec {
	num, ok := uapi.S.Syscalls["x86_64"][name]
	if !ok || rapid.IntRange(0, 9).Draw(rt, "unknownsys") == 0 {
		num = rapid.SampledFrom([]int{9999, -1, 1<<30 | 1}).Draw(rt, "unknownsysnum")
	}
	// numbers: unique tokens most of the time (so that every value can be traced), but in a third of the records
	// the small values real records carry — code that looks at what a number means is only reached by those
	real := rapid.IntRange(0, 2).Draw(rt, "realnumbers") == 0
	n := func(label string, choices ...string) string {
		if real {
			return rapid.SampledFrom(choices).Draw(rt, label)
		}
		return tk.num()
	}
	f := []kenc.F{kenc.P("arch", "c000003e"), kenc.P("syscall", strconv.Itoa(num)),
		kenc.P("success", rapid.SampledFrom([]string{"yes", "no"}).Draw(rt, "success")), kenc.P("exit", n("exit", "0", "3", "-2", "-13", "-1", "4096", "-4095"))}
	for i := 0; i < 4; i++ {
		if real {
			f = append(f, kenc.P("a"+strconv.Itoa(i), rapid.SampledFrom([]string{"0", "1", "7ffd1a2b3c4d", "ffffff9c", "80000"}).Draw(rt, "arg")))
		} else {
			f = append(f, kenc.P("a"+strconv.Itoa(i), "f"+tk.num()))
		}
	}
	// items: a token, or (set by the caller once the group is known) the number of PATH records, or another small number
	f = append(f, kenc.P("items", tk.num()), kenc.P("ppid", n("ppid", "1", "0", "812")), kenc.P("pid", n("pid", "813", "1", "4194304")))
	for _, k := range []string{"auid", "uid", "gid", "euid", "suid", "fsuid", "egid", "sgid", "fsgid"} {
		f = append(f, kenc.P(k, n(k, "0", "1000", "4294967295", "65534")))
	}
	f = append(f, kenc.P("tty", tk.s("pts")), kenc.P("ses", tk.num()), kenc.U("comm", tk.s("comm")))
	switch rapid.IntRange(0, 5).Draw(rt, "exekind") {
	case 0:
		f = append(f, kenc.P("exe", "(null)"))
	case 1:
		f = append(f, kenc.U("exe", "/usr/bin/my prog "+tk.s("x"))) // needs hex encoding
	case 2:
		f = append(f, kenc.U("exe", "/usr/bin/python"+tk.s("")))
	default:
		f = append(f, kenc.U("exe", "/usr/bin/"+tk.s("exe")))
	}
	if rapid.Bool().Draw(rt, "subj") {
		f = append(f, kenc.P("subj", tk.s("u")+":"+tk.s("r")+":"+tk.s("t")+":"+tk.s("s")+":"+tk.s("c")))
	}
	switch rapid.IntRange(0, 4).Draw(rt, "keykind") {
	case 4: // the same key more than once (-k exec -k exec -k other), adjacent and apart
		k := tk.s("kd")
		f = append(f, kenc.F{K: "key", V: []byte(k + "\x01" + k + "\x01" + tk.s("ke") + "\x01" + k), Enc: kenc.Untrusted})
	case 0:
		f = append(f, kenc.P("key", "(null)"))
	case 1:
		f = append(f, kenc.U("key", tk.s("key")))
	default:
		f = append(f, kenc.F{K: "key", V: []byte(tk.s("ka") + "\x01" + tk.s("kb")), Enc: kenc.Untrusted})
	}
	return kenc.Rec{Type: recgen.SYSCALL, Fields: f}
}

var otherGroup = func() []*auparse.AuditMessage {
	var out []*auparse.AuditMessage
	for _, l := range []string{
		`type=SYSCALL msg=audit(1700000000.123:4711): arch=c000003e syscall=2 success=no exit=-13 a0=1 a1=2 a2=3 a3=4 items=2 ppid=7 pid=8 auid=9 uid=10 gid=11 euid=12 suid=13 fsuid=14 egid=15 sgid=16 fsgid=17 tty=pts9 ses=18 comm="other" exe="/bin/other" subj=a:b:c:s0 key="otherkey"`,
		`type=CWD msg=audit(1700000000.123:4711): cwd="/other/cwd"`,
		`type=PATH msg=audit(1700000000.123:4711): item=0 name="/other/dir" inode=1 dev=fd:01 mode=040755 ouid=0 ogid=0 rdev=00:00 nametype=PARENT`,
		`type=PATH msg=audit(1700000000.123:4711): item=1 name="/other/dir/file" inode=2 dev=fd:01 mode=0100644 ouid=1 ogid=2 rdev=00:00 nametype=NORMAL`,
		`type=SOCKADDR msg=audit(1700000000.123:4711): saddr=020000357F0000010000000000000000`,
		`type=EXECVE msg=audit(1700000000.123:4711): argc=2 a0="o0" a1="o1"`,
		`type=PROCTITLE msg=audit(1700000000.123:4711): proctitle=6F7468657200746974`,
	} {
		if m, err := auparse.ParseLogLine(l); err == nil {
			out = append(out, m)
		}
	}
	return out
}()

// coalesceSibling coalesces the same group with every value extended by one character first.
func coalesceSibling(c C09Case) {
	var msgs []*auparse.AuditMessage
	for _, r := range c.Recs {
		r.Fields = append([]kenc.F(nil), r.Fields...)
		for i := range r.Fields {
			if r.Fields[i].K != "" && r.Fields[i].K != "saddr" && r.Fields[i].K != "arch" && r.Fields[i].K != "syscall" {
				r.Fields[i].V = append(append([]byte(nil), r.Fields[i].V...), '7')
			}
		}
		if m, err := auparse.Parse(auparse.AuditMessageType(r.Type), r.Raw()); err == nil {
			msgs = append(msgs, m)
		}
	}
	if ev, err := aucoalesce.CoalesceMessages(msgs); err == nil {
		aucoalesce.ResolveIDs(ev)
	}
}

func otherGroupDigest() string {
	ev, err := aucoalesce.CoalesceMessages(otherGroup)
	if err != nil {
		return "error " + err.Error()
	}
	aucoalesce.ResolveIDs(ev)
	b, _ := json.Marshal(ev)
	return string(b) + fmt.Sprint(ev.Warnings)
}

// otherGroupRef: what the fixed group coalesces to when the process starts, before any generated event
var otherGroupRef = otherGroupDigest()

// coalesceSomethingElse coalesces a fixed group of another event; what comes out never depends on what was
// coalesced before (compared with process start).
func coalesceSomethingElse() error {
	if d := otherGroupDigest(); d != otherGroupRef {
		return fmt.Errorf("a fixed group coalesced after this event differs from how it came out when the process started:\n  now   %s\n  start %s", d, otherGroupRef)
	}
	return nil
}

func setField(r *kenc.Rec, key, val string) {
	for i := range r.Fields {
		if r.Fields[i].K == key {
			r.Fields[i] = kenc.P(key, val)
		}
	}
}

func genPathRec(rt *rapid.T, tk *tokens, item int) kenc.Rec {
	mode := rapid.SampledFrom(modeChoices).Draw(rt, "mode")
	f := []kenc.F{kenc.P("item", strconv.Itoa(item))}
	if rapid.IntRange(0, 7).Draw(rt, "noname") == 0 {
		f = append(f, kenc.P("name", "(null)"))
	} else if rapid.IntRange(0, 3).Draw(rt, "hexname") == 0 {
		f = append(f, kenc.U("name", "/p/with space/"+tk.s("name")))
	} else {
		f = append(f, kenc.U("name", long(rt, "/p/"+tk.s("name"))))
	}
	f = append(f, kenc.P("inode", tk.num()), kenc.P("dev", "fd:"+tk.num()), kenc.P("mode", fmt.Sprintf("%#o", mode)),
		kenc.P("ouid", tk.num()), kenc.P("ogid", tk.num()), kenc.P("rdev", "00:"+tk.num()))
	if rapid.Bool().Draw(rt, "obj") {
		f = append(f, kenc.P("obj", tk.s("ou")+":"+tk.s("or")+":"+tk.s("ot")+":"+tk.s("ol")+mlsTail(rt, tk)))
	}
	f = append(f, kenc.P("nametype", rapid.SampledFrom([]string{"NORMAL", "PARENT", "PARENT", "CREATE", "DELETE", "UNKNOWN", "NORMAL"}).Draw(rt, "nametype")),
		kenc.P("cap_fp", tk.num()), kenc.P("cap_fi", tk.num()))
	return kenc.Rec{Type: recgen.PATH, Fields: f}
}

// mlsTail: an MLS range with categories on both levels has colons of its own (s1:c0-s2:c0.c5): a context of six
// or seven parts, or of fewer than the usual ones
func mlsTail(rt *rapid.T, tk *tokens) string {
	switch rapid.IntRange(0, 5).Draw(rt, "mlstail") {
	case 0:
		return "-" + tk.s("s") + ":" + tk.s("c")
	case 1:
		return ":" + tk.s("c") + "-" + tk.s("s") + ":" + tk.s("c") + "." + tk.s("c")
	case 2:
		return ":"
	}
	return ""
}

// long pads a value, now and then, to a length around a power of two (the kernel cuts a process title at 128
// bytes, a path at 4096; anybody's idea of "long" lies near such a number).
func long(rt *rapid.T, s string) string {
	if rapid.IntRange(0, 7).Draw(rt, "long") != 0 {
		return s
	}
	n := rapid.SampledFrom([]int{128, 127, 129, 255, 256, 257, 1023, 1024, 1025, 4095, 4096}).Draw(rt, "longlen")
	for len(s) < n {
		s += "-long"
	}
	return s[:max(n, 0)]
}

func genOtherRec(rt *rapid.T, tk *tokens, kind string, collide bool) kenc.Rec {
	switch kind {
	case "cwd":
		return kenc.Rec{Type: recgen.CWD, Fields: []kenc.F{kenc.U("cwd", long(rt, "/home/"+tk.s("cwd")))}}
	case "execve":
		var args [][]byte
		argc := rapid.IntRange(0, 4).Draw(rt, "argc")
		switch rapid.IntRange(0, 15).Draw(rt, "manyargs") {
		case 0, 1:
			argc = rapid.IntRange(9, 24).Draw(rt, "argcmany") // two-digit argument keys: a10 sorts before a2 as text
		case 2:
			// a linker or xargs command line: hundreds of arguments, three-digit keys
			argc = rapid.SampledFrom([]int{129, 128, 127, 257, 100, 300, 1025}).Draw(rt, "argchuge")
		}
		for i, n := 0, argc; i < n; i++ {
			a := tk.s("arg")
			if rapid.IntRange(0, 3).Draw(rt, "hexarg") == 0 {
				a = "arg with space " + tk.s("")
			}
			if argc < 30 {
				a = long(rt, a)
			}
			args = append(args, []byte(a))
		}
		return kenc.Rec{Type: recgen.EXECVE, Fields: kenc.Execve(args)}
	case "sockaddr":
		tk.n++
		switch rapid.IntRange(0, 5).Draw(rt, "sockfam") {
		case 3, 4:
			// families the parser does not decode (netlink, packet, anything else): the raw address stays a field
			fam := byte(16)
			if rapid.Bool().Draw(rt, "otherfam") {
				fam = rapid.SampledFrom([]byte{0, 3, 17, 29, 38, 40, 255}).Draw(rt, "fam")
			}
			raw := []byte{fam, 0, byte(tk.n >> 24), byte(tk.n >> 16), byte(tk.n >> 8), byte(tk.n)}
			raw = append(raw, rapid.SliceOfN(rapid.Byte(), 0, 10).Draw(rt, "sockraw")...)
			return kenc.Rec{Type: recgen.SOCKADDR, Fields: []kenc.F{{K: "saddr", Enc: kenc.HexAlways, V: raw}}}
		case 5:
			// a decodable family with an address too short to decode
			fam := rapid.SampledFrom([]byte{1, 2, 10}).Draw(rt, "shortfam")
			raw := []byte{fam, 0, 'a' + byte(tk.n/26%26), 'a' + byte(tk.n%26)} // text bytes: a short unix address is a path
			return kenc.Rec{Type: recgen.SOCKADDR, Fields: []kenc.F{{K: "saddr", Enc: kenc.HexAlways, V: raw[:rapid.IntRange(2, 4).Draw(rt, "shortlen")]}}}
		case 0:
			return kenc.Rec{Type: recgen.SOCKADDR, Fields: []kenc.F{{K: "saddr", Enc: kenc.HexAlways,
				V: kenc.SockaddrInet([4]byte{10, byte(tk.n >> 16), byte(tk.n >> 8), byte(tk.n)}, uint16(20000+tk.n%40000), [8]byte{})}}}
		case 1:
			ip := [16]byte{0x20, 0x01, 0x0d, 0xb8, 12: byte(tk.n >> 24), 13: byte(tk.n >> 16), 14: byte(tk.n >> 8), 15: byte(tk.n)}
			return kenc.Rec{Type: recgen.SOCKADDR, Fields: []kenc.F{{K: "saddr", Enc: kenc.HexAlways, V: kenc.SockaddrInet6(ip, uint16(20000+tk.n%40000), 0, 0)}}}
		default:
			return kenc.Rec{Type: recgen.SOCKADDR, Fields: []kenc.F{{K: "saddr", Enc: kenc.HexAlways, V: kenc.SockaddrUnix([]byte("/run/"+tk.s("sock")), []byte{1, 2})}}}
		}
	case "proctitle":
		return kenc.Rec{Type: recgen.PROCTITLE, Fields: []kenc.F{kenc.U("proctitle", long(rt, tk.s("title")+"\x00"+tk.s("targ")))}}
	case "avc":
		f := []kenc.F{kenc.T("avc:  denied  { " + rapid.SampledFrom([]string{"read", "read write", "execute"}).Draw(rt, "perms") + " } for "),
			kenc.P("ino", tk.num()), kenc.U("path", "/avc/"+tk.s("p")), kenc.Q("dev", tk.s("sd")),
			kenc.P("scontext", tk.s("su")+":"+tk.s("sr")), kenc.P("tcontext", tk.s("tu")+":"+tk.s("tr")), kenc.P("tclass", "file"), kenc.P("permissive", "0")}
		if collide {
			f = append(f, kenc.P("pid", tk.num()), kenc.U("comm", tk.s("acomm")))
		}
		return kenc.Rec{Type: recgen.AVC, Fields: f}
	case "apparmor":
		return kenc.Rec{Type: recgen.AVC, Fields: []kenc.F{kenc.Q("apparmor", "DENIED"), kenc.Q("operation", tk.s("op")), kenc.Q("profile", "/usr/sbin/"+tk.s("prof")),
			kenc.Q("requested_mask", tk.s("m")), kenc.P("fsuid_x", tk.num()), kenc.P("ouid_x", tk.num())}}
	case "bprm":
		f := []kenc.F{kenc.P("fver", tk.num()), kenc.P("fp", tk.s("fp")), kenc.P("old_pp", tk.s("pp")), kenc.P("new_pe", tk.s("pe"))}
		if collide {
			f = append(f, kenc.P("exit", tk.num()), kenc.P("a0", tk.s("z")))
		}
		return kenc.Rec{Type: recgen.BPRM_FCAPS, Fields: f}
	case "mmap":
		return kenc.Rec{Type: recgen.MMAP, Fields: []kenc.F{kenc.P("fd", tk.num()), kenc.P("flags", "0x"+tk.num())}}
	case "objpid":
		return kenc.Rec{Type: recgen.OBJ_PID, Fields: []kenc.F{kenc.P("opid", tk.num()), kenc.P("oauid", tk.num()), kenc.P("ouid", tk.num()), kenc.P("oses", tk.num()), kenc.U("ocomm", tk.s("oc"))}}
	case "config":
		// auxiliary records carry their own outcome (res=), which may differ from the SYSCALL's
		return kenc.Rec{Type: recgen.CONFIG_CHG, Fields: []kenc.F{kenc.P("op", tk.s("op")), kenc.P("list", tk.num()),
			kenc.P("res", rapid.SampledFrom([]string{"0", "1"}).Draw(rt, "auxres"))}}
	case "feature":
		return kenc.Rec{Type: 1328, Fields: []kenc.F{kenc.P("feature", tk.s("feat")), kenc.P("old", tk.num()), kenc.P("new", tk.num()),
			kenc.P("res", rapid.SampledFrom([]string{"0", "1"}).Draw(rt, "auxres"))}}
	case "wide":
		// a record with hundreds of fields (a long EXECVE is the usual one; here every key is a new one)
		var f []kenc.F
		for i, n := 0, rapid.SampledFrom([]int{257, 256, 255, 300, 129, 65, 1025}).Draw(rt, "widefields"); i < n; i++ {
			f = append(f, kenc.P(fmt.Sprintf("w%d", i), tk.num()))
		}
		return kenc.Rec{Type: 1328, Fields: f}
	case "fdpair":
		return kenc.Rec{Type: recgen.FD_PAIR, Fields: []kenc.F{kenc.P("fd0", tk.num()), kenc.P("fd1", tk.num())}}
	}
	return kenc.Rec{Type: recgen.KERN_MOD, Fields: []kenc.F{kenc.U("name", tk.s("mod"))}}
}

func genSingle(rt *rapid.T, tk *tokens) kenc.Rec {
	typ := rapid.SampledFrom([]uint16{recgen.USER_AUTH, recgen.USER_ACCT, recgen.CRED_ACQ, recgen.USER_LOGIN, recgen.USER_CMD, recgen.SERVICE_ST, 1131, 2404,
		recgen.CONFIG_CHG, recgen.ANOM_ABEND, recgen.LOGIN, 1116, 1117, 2300, 1701, 1326, 1107, 1300, 2113, 2103}).Draw(rt, "stype")
	base := []kenc.F{kenc.P("pid", tk.num()), kenc.P("uid", tk.num()), kenc.P("auid", tk.num()), kenc.P("ses", tk.num())}
	switch typ {
	case recgen.SYSCALL:
		return genSyscallRec(rt, tk)
	case recgen.USER_CMD:
		return kenc.Rec{Type: typ, Fields: base, User: []kenc.F{kenc.U("cwd", "/root/"+tk.s("cwd")), kenc.U("cmd", "ls -l "+tk.s("cmd")),
			kenc.P("terminal", tk.s("pts/")), kenc.P("res", rapid.SampledFrom([]string{"success", "failed"}).Draw(rt, "res"))}}
	case recgen.CONFIG_CHG:
		return kenc.Rec{Type: typ, Fields: []kenc.F{kenc.P("auid", tk.num()), kenc.P("ses", tk.num()), kenc.P("op", tk.s("op")), kenc.U("key", tk.s("key")),
			kenc.P("list", tk.num()), kenc.P("res", "1")}}
	case recgen.LOGIN:
		return kenc.Rec{Type: typ, Fields: []kenc.F{kenc.P("pid", tk.num()), kenc.P("uid", tk.num()), kenc.P("subj", tk.s("u")+":"+tk.s("r")+":"+tk.s("t")),
			kenc.T("old"), kenc.P("auid", tk.num()), kenc.T("new"), kenc.P("auid", tk.num())}}
	case recgen.ANOM_ABEND, 1326:
		return kenc.Rec{Type: typ, Fields: append(base, kenc.P("gid", tk.num()), kenc.U("comm", tk.s("comm")), kenc.U("exe", "/usr/bin/"+tk.s("exe")),
			kenc.P("sig", "11"), kenc.P("arch", "c000003e"), kenc.P("syscall", "59"), kenc.P("res", "1"))}
	default:
		return kenc.Rec{Type: typ, Fields: base, User: []kenc.F{kenc.P("op", tk.s("op")), kenc.Q("acct", tk.s("acct")), kenc.Q("exe", "/usr/sbin/"+tk.s("exe")),
			kenc.P("hostname", tk.s("host")), kenc.P("addr", tk.s("ad")), kenc.P("terminal", tk.s("term")),
			kenc.P("res", rapid.SampledFrom([]string{"success", "failed"}).Draw(rt, "res"))}}
	}
}

var (
	normTypesOnce sync.Once
	normTypes     []uint16
)

// normRecordTypes lists every record type named in the working tree's normalizations.yaml.
func normRecordTypes() []uint16 {
	normTypesOnce.Do(func() {
		b, err := os.ReadFile("/repo/aucoalesce/normalizations.yaml")
		if err != nil {
			return
		}
		_, recordTypes, err := aucoalesce.LoadNormalizationConfig(b)
		if err != nil {
			return
		}
		var names []string
		for name := range recordTypes {
			names = append(names, name)
		}
		sort.Strings(names)
		for _, name := range names {
			if t, err := auparse.GetAuditMessageType(name); err == nil && t != auparse.AUDIT_SYSCALL && t != auparse.AUDIT_EOE &&
				t != auparse.AUDIT_PATH && t != auparse.AUDIT_SOCKADDR && t != auparse.AUDIT_EXECVE && t != auparse.AUDIT_SECCOMP {
				// (SECCOMP records need sig/arch/syscall fields to be well-formed; they are generated as single records)
				normTypes = append(normTypes, uint16(t))
			}
		}
	})
	return normTypes
}

var sourceIPOnce sync.Once
var sourceIPList []uint16

// sourceIPTypes lists the record types whose normalisation has a source_ip rule.
func sourceIPTypes() []uint16 {
	sourceIPOnce.Do(func() {
		b, err := os.ReadFile("/repo/aucoalesce/normalizations.yaml")
		if err != nil {
			return
		}
		_, recordTypes, err := aucoalesce.LoadNormalizationConfig(b)
		if err != nil {
			return
		}
		var names []string
		for name, norms := range recordTypes {
			for _, n := range norms {
				if len(n.SourceIP.Values) > 0 {
					names = append(names, name)
					break
				}
			}
		}
		sort.Strings(names)
		for _, name := range names {
			if t, err := auparse.GetAuditMessageType(name); err == nil {
				sourceIPList = append(sourceIPList, uint16(t))
			}
		}
	})
	return sourceIPList
}

func genC09(rt *rapid.T) C09Case {
	// the token range varies between cases so that ID caches meet new ids
	tk := &tokens{n: 100 * rapid.IntRange(0, 9000).Draw(rt, "tokenbase")}
	var c C09Case
	sec := rapid.Int64Range(1, 1<<33).Draw(rt, "sec")
	ms := rapid.IntRange(0, 999).Draw(rt, "ms")
	seq := rapid.Uint32().Draw(rt, "seq")
	switch rapid.IntRange(0, 11).Draw(rt, "shape") {
	case 0: // degenerate groups
		switch rapid.IntRange(0, 2).Draw(rt, "degenerate") {
		case 0:
		case 1:
			c.Recs = []kenc.Rec{{Type: recgen.EOE}}
		default:
			c.Recs = []kenc.Rec{genOtherRec(rt, tk, "cwd", false), genPathRec(rt, tk, 0)}
			if rapid.Bool().Draw(rt, "third") {
				c.Recs = append(c.Recs, genOtherRec(rt, tk, "proctitle", false))
			}
		}
	case 1, 2, 3:
		c.Recs = []kenc.Rec{genSingle(rt, tk)}
	default:
		sys := genSyscallRec(rt, tk)
		var others []kenc.Rec
		kinds := []string{"cwd", "execve", "sockaddr", "proctitle", "avc", "apparmor", "bprm", "mmap", "objpid", "fdpair", "kmod", "config", "feature", "wide"}
		for i, k := range kinds {
			if rapid.IntRange(0, map[bool]int{false: 2, true: 11}[k == "wide"]).Draw(rt, "has-"+k) == 0 {
				r := genOtherRec(rt, tk, k, rapid.IntRange(0, 2).Draw(rt, "collide") == 0)
				if i >= 4 && rapid.IntRange(0, 4).Draw(rt, "ownsubj") == 0 {
					// its own security context (kernel records of a compound event usually repeat the task's;
					// here it differs, so every label can be traced)
					r.Fields = append(r.Fields, kenc.P("subj", tk.s("au")+":"+tk.s("ar")+":"+tk.s("at")+":"+tk.s("as")+":"+tk.s("ac")+mlsTail(rt, tk)))
				}
				if i >= 4 && rapid.IntRange(0, 3).Draw(rt, "syscallkey") == 0 {
					// a field named like one of the SYSCALL record's own (only the SYSCALL record's item count
					// may be dropped without a word)
					r.Fields = append(r.Fields, kenc.P(rapid.SampledFrom([]string{"items", "exit", "a0", "items", "a3", "ppid", "tty"}).Draw(rt, "syscallkeyname"), tk.num()))
				}
				others = append(others, r)
			}
		}
		npaths := rapid.IntRange(0, 4).Draw(rt, "npaths")
		if rapid.IntRange(0, 11).Draw(rt, "manypaths") == 0 {
			npaths = rapid.SampledFrom([]int{9, 10, 11, 13, 17, 33, 65, 101, 129}).Draw(rt, "npathsmany") // two- and three-digit item numbers
		}
		for i, n := 0, npaths; i < n; i++ {
			others = append(others, genPathRec(rt, tk, i))
		}
		switch rapid.IntRange(0, 3).Draw(rt, "itemskind") {
		case 0, 1: // as the kernel writes it: the number of PATH records
			setField(&sys, "items", strconv.Itoa(npaths))
		case 2: // any other small number
			setField(&sys, "items", strconv.Itoa(rapid.IntRange(0, 6).Draw(rt, "items")))
		}
		if len(others) > 1 && rapid.Bool().Draw(rt, "shuffle") {
			others = rapid.Permutation(others).Draw(rt, "perm")
		}
		pos := 0
		if rapid.IntRange(0, 2).Draw(rt, "sysfirst") == 0 && len(others) > 0 {
			pos = rapid.IntRange(0, len(others)).Draw(rt, "syspos")
		}
		c.Recs = append(append(append([]kenc.Rec{}, others[:pos]...), sys), others[pos:]...)
		if types := normRecordTypes(); len(types) > 0 && rapid.IntRange(0, 3).Draw(rt, "typedfirst") == 0 {
			// the event is named after its first record: any record type of the normalisation table, with the
			// fields user-space tools put there (account, host, address, terminal, outcome), in front of the group
			typ := rapid.SampledFrom(types).Draw(rt, "firsttype")
			hasSock := false
			for _, r := range c.Recs {
				hasSock = hasSock || r.Type == recgen.SOCKADDR
			}
			if hasSock && rapid.Bool().Draw(rt, "socketevent") {
				// a network event: a syscall that makes the SOCKADDR record the source or destination, under a
				// record type whose normalisation takes an address from its own fields
				if st := sourceIPTypes(); len(st) > 0 {
					typ = rapid.SampledFrom(st).Draw(rt, "sourceiptype")
				}
				name := rapid.SampledFrom([]string{"recvfrom", "recvmsg", "accept", "accept4", "connect", "sendto", "sendmsg", "bind"}).Draw(rt, "socksys")
				for i := range c.Recs {
					if c.Recs[i].Type == recgen.SYSCALL {
						c.Recs[i] = genSyscallRecNamed(rt, tk, name)
					}
				}
			}
			first := kenc.Rec{Type: typ, Fields: []kenc.F{kenc.P("pid", tk.num()), kenc.P("uid", tk.num()), kenc.P("auid", tk.num()), kenc.P("ses", tk.num())},
				User: []kenc.F{kenc.P("op", tk.s("op")), kenc.Q("acct", tk.s("acct")), kenc.Q("exe", "/usr/sbin/"+tk.s("exe")), kenc.P("hostname", tk.s("host")),
					kenc.P("addr", tk.s("ad")), kenc.P("terminal", tk.s("term")), kenc.P("res", rapid.SampledFrom([]string{"success", "failed"}).Draw(rt, "firstres"))}}
			c.Recs = append([]kenc.Rec{first}, c.Recs...)
		}
	}
	if len(c.Recs) > 0 && c.Recs[len(c.Recs)-1].Type != recgen.EOE && rapid.IntRange(0, 2).Draw(rt, "eoe") == 0 {
		c.Recs = append(c.Recs, kenc.Rec{Type: recgen.EOE})
	}
	for i := range c.Recs {
		c.Recs[i].Sec, c.Recs[i].Ms, c.Recs[i].Seq = sec, ms, seq
	}
	return c
}

// flatten collects the string leaves of the JSON form of the event, alone and
// together with the key they sit under.
func flatten(v any, key string, leaves map[string]bool, keyed map[string]bool) {
	switch x := v.(type) {
	case map[string]any:
		for k, e := range x {
			flatten(e, k, leaves, keyed)
		}
	case []any:
		for _, e := range x {
			flatten(e, key, leaves, keyed)
		}
	case string:
		leaves[x] = true
		keyed[key+"\x00"+x] = true
	case float64:
		s := strconv.FormatFloat(x, 'f', -1, 64)
		leaves[s] = true
		keyed[key+"\x00"+s] = true
	}
}

type recSnap struct {
	typ  uint16
	data map[string]string
	tags []string
	err  string // Data() refused the record (e.g. an address too short for its family)
}

func parseGroup(c C09Case) ([]*auparse.AuditMessage, []recSnap, error) {
	var msgs []*auparse.AuditMessage
	var snaps []recSnap
	for _, r := range c.Recs {
		m, err := auparse.Parse(auparse.AuditMessageType(r.Type), r.Raw())
		if err != nil {
			return nil, nil, fmt.Errorf("Parse(%q): %v", r.Raw(), err)
		}
		msgs = append(msgs, m)
		d, err := m.Data()
		derr := ""
		if err != nil && r.Type != recgen.EOE {
			if r.Type != recgen.SOCKADDR {
				return nil, nil, fmt.Errorf("Data() of %q: %v", r.Raw(), err)
			}
			derr = err.Error() // only the generated short socket addresses are refused by Data()
		}
		cp := map[string]string{}
		for k, v := range d {
			cp[k] = v
		}
		tg, _ := m.Tags()
		snaps = append(snaps, recSnap{r.Type, cp, append([]string(nil), tg...), derr})
	}
	return msgs, snaps, nil
}

func isToken(v string) bool {
	// generated unique tokens contain a number >= 70001
	run := 0
	for i := 0; i <= len(v); i++ {
		if i < len(v) && v[i] >= '0' && v[i] <= '9' {
			run++
			continue
		}
		if run >= 5 {
			if n, err := strconv.Atoi(v[i-run : i]); err == nil && n > 70000 {
				return true
			}
		}
		run = 0
	}
	return false
}

var fileTypeNames = map[uint32]string{0o100000: "file", 0o040000: "directory", 0o020000: "character-device", 0o060000: "block-device",
	0o010000: "named-pipe", 0o120000: "symlink", 0o140000: "socket"}

func propC09(c C09Case) error {
	msgs, snaps, err := parseGroup(c)
	if err != nil {
		return err
	}
	coalesceSibling(c) // nor on what was coalesced before
	ev, err := aucoalesce.CoalesceMessages(msgs)
	if eerr := coalesceSomethingElse(); eerr != nil { // the event handed out must not depend on what is coalesced afterwards, nor the other way round
		return fmt.Errorf("%s\n  %v", c.Describe(), eerr)
	}
	data := 0
	hasSyscall := false
	for _, r := range c.Recs {
		if r.Type != recgen.EOE {
			data++
		}
		hasSyscall = hasSyscall || r.Type == recgen.SYSCALL
	}
	if data == 0 || (data > 1 && !hasSyscall) {
		if err == nil || ev != nil {
			return fmt.Errorf("%s\n  group with %d data records (SYSCALL present: %v) must give an error and no event, got event=%v err=%v", c.Describe(), data, hasSyscall, ev != nil, err)
		}
		hC09.Class("degenerate-group-refused")
		return nil
	}
	if err != nil || ev == nil {
		return fmt.Errorf("%s\n  CoalesceMessages failed: %v", c.Describe(), err)
	}
	first := msgs[0]
	if ev.Sequence != first.Sequence || !ev.Timestamp.Equal(first.Timestamp) || ev.Type != first.RecordType {
		return fmt.Errorf("%s\n  event identity (%v, %d, %v) is not that of the first record (%v, %d, %v)", c.Describe(), ev.Timestamp, ev.Sequence, ev.Type, first.Timestamp, first.Sequence, first.RecordType)
	}
	// the homes the property names: Data, Paths, Process, User ids / SELinux labels, Result, Session, Tags,
	// Source / Destination (the summary, the file summary and the ECS fields are derived copies, not homes)
	homes := map[string]any{"data": ev.Data, "paths": ev.Paths, "process": ev.Process, "user_ids": ev.User.IDs, "user_selinux": ev.User.SELinux,
		"result": ev.Result, "session": ev.Session, "tags": ev.Tags, "source": ev.Source, "destination": ev.Dest}
	b, _ := json.Marshal(homes)
	var generic any
	_ = json.Unmarshal(b, &generic)
	leaves, keyed := map[string]bool{}, map[string]bool{}
	flatten(generic, "", leaves, keyed)
	warn := ""
	for _, w := range ev.Warnings {
		warn += w.Error() + "\n"
	}
	collision := false
	seenKeys := map[string]bool{}
	for _, s := range snaps {
		tname := auparse.AuditMessageType(s.typ).String()
		if s.err != "" {
			// the record could not be decoded at all: a warning has to say so (by the parser's message or by naming the record)
			if !strings.Contains(warn, s.err) && !warningCovers(ev.Warnings, "\x00", tname) {
				return fmt.Errorf("%s\n  the %s record cannot be decoded (%s) and no warning says so\n  event=%s\n  warnings=%q", c.Describe(), tname, s.err, b, warn)
			}
			hC09.Class("undecodable-record-covered-by-warning")
			continue
		}
		for k, v := range s.data {
			if s.typ == recgen.SYSCALL && k == "items" {
				continue // dropped on purpose
			}
			if s.typ != recgen.PATH && s.typ != recgen.SOCKADDR && s.typ != recgen.EXECVE {
				if seenKeys[k] {
					collision = true
				}
				seenKeys[k] = true
			}
			found := false
			if isToken(v) {
				found = leaves[v]
			} else {
				// fixed vocabulary: the value must sit under the same key (or its documented new home)
				for _, kk := range []string{k, "socket_" + k, map[string]string{"result": "result", "ses": "session"}[k]} {
					found = found || keyed[kk+"\x00"+v]
				}
			}
			if found {
				continue
			}
			if warningCovers(ev.Warnings, k, tname) {
				hC09.Class("field-covered-by-warning")
				continue
			}
			return fmt.Errorf("%s\n  %s field %s=%q is nowhere in the event and no warning names it\n  event=%s\n  warnings=%q", c.Describe(), tname, k, v, b, warn)
		}
		for _, tg := range s.tags {
			if s.typ == recgen.SYSCALL || len(snaps) == 1 {
				if !leaves[tg] {
					return fmt.Errorf("%s\n  tag %q of the %s record is not in the event\n  event=%s", c.Describe(), tg, tname, b)
				}
			}
		}
	}
	// file facts
	npaths := 0
	for _, s := range snaps {
		if s.typ == recgen.PATH {
			npaths++
		}
	}
	if ev.File == nil && len(ev.Paths) > 0 && len(ev.Warnings) == 0 {
		switch ev.Summary.Object.Type {
		case "file", "filesystem", "directory", "character-device", "block-device", "named-pipe", "symlink", "socket-file":
			// the normalisation of this event names a file object and there are PATH records: one of them is selected
			return fmt.Errorf("%s\n  the object of the event is a %s and it has %d PATH records, but there is no file summary and no warning", c.Describe(), ev.Summary.Object.Type, len(ev.Paths))
		}
	}
	if ev.File != nil {
		var p map[string]string
		for _, s := range snaps {
			if s.typ == recgen.PATH && s.data["inode"] == ev.File.Inode {
				p = s.data
			}
		}
		if p == nil {
			return fmt.Errorf("%s\n  file summary %+v has inode %q, which no PATH record of the event has", c.Describe(), *ev.File, ev.File.Inode)
		}
		if err := checkFile(ev, p); err != nil {
			return fmt.Errorf("%s\n  %v", c.Describe(), err)
		}
		hC09.Class("file-summary-checked")
		// which record: the normalisation of the syscall names the PATH record the event is about
		// (object_path_index). When the event has more PATH records than that, the summary is never about a record
		// in front of it, and it is about that very record unless its name type (PARENT, UNKNOWN) speaks against it.
		// (an event led by a record of another type is normalised by that type's entry)
		if h := pathHints()[ev.Data["syscall"]]; h > 0 && ev.Type == auparse.AUDIT_SYSCALL {
			var paths []map[string]string
			sel, matches := -1, 0
			for _, s := range snaps {
				if s.typ == recgen.PATH && s.err == "" {
					if s.data["inode"] == ev.File.Inode {
						sel = len(paths)
						matches++
					}
					paths = append(paths, s.data)
				}
			}
			if matches == 1 && len(paths) > h && len(paths) == len(ev.Paths) {
				hC09.Class("file-summary-of-event-with-path-index-hint")
				if sel < h {
					return fmt.Errorf("%s\n  the normalisation of %s names PATH record %d as the object, the event has %d PATH records, and the file summary is about record %d (inode %s)", c.Describe(), ev.Data["syscall"], h, len(paths), sel, ev.File.Inode)
				}
				if nt := paths[h]["nametype"]; nt != "PARENT" && nt != "UNKNOWN" && sel != h {
					return fmt.Errorf("%s\n  the normalisation of %s names PATH record %d as the object (nametype %q), the file summary is about record %d", c.Describe(), ev.Data["syscall"], h, nt, sel)
				}
			}
		}
	}
	hC09.Class(fmt.Sprintf("records-%d", min(len(c.Recs), 8)))
	if len(c.Recs) > 1 && c.Recs[0].Type != recgen.SYSCALL && len(c.Recs[0].User) > 0 {
		hC09.Class("group-led-by-user-space-record")
		if ev.Source != nil || ev.Dest != nil {
			hC09.Class("group-led-by-user-space-record-with-socket-address")
		}
	}
	if collision {
		hC09.Class("key-collision")
	}
	if len(c.Recs) >= 3 && (npaths > 0 || collision) {
		hC09.NonTrivial(hx.FP(c.Describe()), c.Describe)
	}
	return nil
}

// checkFile compares the file summary with the PATH record it was taken from.
func checkFile(ev *aucoalesce.Event, p map[string]string) error {
	f := ev.File
	if f.Path != p["name"] {
		return fmt.Errorf("file path %q, the PATH record has name %q", f.Path, p["name"])
	}
	if f.Device != p["rdev"] && f.Device != p["dev"] {
		return fmt.Errorf("file device %q, the PATH record has rdev %q / dev %q", f.Device, p["rdev"], p["dev"])
	}
	if f.UID != p["ouid"] || f.GID != p["ogid"] {
		return fmt.Errorf("file owner %q/%q, the PATH record has ouid %q ogid %q", f.UID, f.GID, p["ouid"], p["ogid"])
	}
	for k, v := range p {
		if strings.HasPrefix(k, "obj_") && f.SELinux[k[4:]] != v {
			return fmt.Errorf("file SELinux label %s = %q, the PATH record has %q", k[4:], f.SELinux[k[4:]], v)
		}
	}
	if ms, ok := p["mode"]; ok {
		mode, err := strconv.ParseUint(ms, 8, 32)
		if err != nil {
			return nil
		}
		if want := fmt.Sprintf("%04o", mode&0o7777); f.Mode != want {
			return fmt.Errorf("file mode %q, want %q (permission bits of mode %s)", f.Mode, want, ms)
		}
		if want, valid := fileTypeNames[uint32(mode)&uapi.S.Stat["S_IFMT"]]; valid && ev.Summary.Object.Type != want {
			detail := fmt.Sprintf("mode %s has the file-type bits of a %s, summary.object.type is %q", ms, want, ev.Summary.Object.Type)
			if ev.Summary.Object.Type == "file" && want != "file" {
				if hC09.Known("filetype-nonregular-as-file", detail) {
					return nil
				}
			}
			return fmt.Errorf("%s", detail)
		}
	}
	return nil
}

func TestC09Regress(t *testing.T) { hx.Regress(t, hC09, "TestC09", propC09) }

func TestC09(t *testing.T) { hx.Check(t, hC09, "TestC09", genC09, propC09) }

// TestC09Modes: all 65536 st_mode values on the selected PATH record, under a
// syscall whose normalisation selects a file object.
func TestC09Modes(t *testing.T) {
	sysn := []string{"open"}
	if hx.Thorough() {
		sysn = []string{"open", "chmod", "unlink"}
	}
	n := 0
	for _, name := range sysn {
		num := uapi.S.Syscalls["x86_64"][name]
		for mode := 0; mode < 65536; mode++ {
			c := C09Case{Recs: []kenc.Rec{
				{Type: recgen.SYSCALL, Sec: 1, Seq: 7, Fields: []kenc.F{kenc.P("arch", "c000003e"), kenc.P("syscall", strconv.Itoa(num)), kenc.P("success", "yes"),
					kenc.P("exit", "70001"), kenc.P("items", "1"), kenc.P("pid", "70002"), kenc.P("auid", "70003"), kenc.P("uid", "70004"), kenc.P("ses", "70005"),
					kenc.U("comm", "c70006"), kenc.U("exe", "/bin/e70007"), kenc.P("key", "(null)")}},
				{Type: recgen.CWD, Sec: 1, Seq: 7, Fields: []kenc.F{kenc.U("cwd", "/w70008")}},
				{Type: recgen.PATH, Sec: 1, Seq: 7, Fields: []kenc.F{kenc.P("item", "0"), kenc.U("name", "/n70009"), kenc.P("inode", "70010"), kenc.P("dev", "08:70011"),
					kenc.P("mode", fmt.Sprintf("%#o", mode)), kenc.P("ouid", "70012"), kenc.P("ogid", "70013"), kenc.P("rdev", "00:70014"), kenc.P("nametype", "NORMAL")}},
			}}
			hC09.Eval()
			n++
			if err := hx.Guard(propC09, c); err != nil {
				hC09.Fail(t, "TestC09", c, "%v", err)
			}
			if _, valid := fileTypeNames[uint32(mode)&0o170000]; valid {
				hC09.Class("mode-sweep-valid-type")
			}
		}
	}
	hC09.Extra("mode_sweep_exhaustive", true)
	hC09.Extra("mode_sweep_cases", n)
}

// warningCovers: a warning accounts for a missing field only if it names that key ("duplicate key (k) from
// T message") or says that the whole record of that type could not be used ("failed to parse T message",
// "failed to add T data"). A warning about another key of the same record does not count.
func warningCovers(ws []error, key, typeName string) bool {
	for _, w := range ws {
		m := w.Error()
		if strings.Contains(m, "("+key+")") {
			return true
		}
		if strings.HasPrefix(m, "failed to") && strings.Contains(m, typeName) {
			return true
		}
	}
	return false
}
