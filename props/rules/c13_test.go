package rules

import (
	"bytes"
	"encoding/binary"
	"fmt"
	"runtime"
	"runtime/metrics"
	"sort"
	"strconv"
	"strings"
	"testing"

	"github.com/elastic/go-libaudit/v2/rule"
	"github.com/elastic/go-libaudit/v2/rule/flags"
	"pgregory.net/rapid"

	"verif/internal/hx"
	"verif/internal/rulegen"
	"verif/internal/uapi"
)

// C13 — rule.Build, rule.ToCommandLine and flags.Parse never panic, hang or
// allocate in proportion to numbers found in the input; whenever ToCommandLine
// succeeds the bytes were a structurally valid rule.

var hC13 = hx.New("C13", "three input families: (a) arbitrary Rule structs for Build (junk and valid strings for list/action/field/operator/value, syscall numbers across -1, 0..2047, 2048..2079, 2080, 2^31, 2^32+k, up to 80 filters, over-long keys and paths, filter types 0-3, delete-all rules, nil); (b) byte slices for ToCommandLine: random, truncations of valid rules, and systematically every valid rule of a catalogue with each of its 260 header words replaced by boundary values (thorough: plus overflowing pairs); (c) arbitrary strings and token soups for flags.Parse; thorough tier adds native fuzzing. Oracle: no panic, hang watchdog, bytes allocated per call <= 1 MiB + 64 x input length, and an independent structural check (field_count <= 64, buflen and every string inside the buffer) whenever ToCommandLine succeeds. Non-trivial = input that passes the first validation stage (header-sized buffer / tokenised line / rule with valid list and action); distinct by hash of the input")

type C13Case struct {
	Kind string `json:"kind"` // "build", "decode", "parse"
	// build
	RuleType int               `json:"rule_type,omitempty"` // 0 syscall, 1 watch, 2 delete-all, 3 nil
	TypeCode int               `json:"type_code,omitempty"`
	List     string            `json:"list,omitempty"`
	Action   string            `json:"action,omitempty"`
	Filters  []rule.FilterSpec `json:"filters,omitempty"`
	Syscalls []string          `json:"syscalls,omitempty"`
	Keys     []string          `json:"keys,omitempty"`
	Path     string            `json:"path,omitempty"`
	Perms    []uint8           `json:"perms,omitempty"`
	// decode
	Bytes []byte `json:"bytes,omitempty"`
	// parse
	Line []byte `json:"line,omitempty"`
}

func (c C13Case) Describe() string {
	switch c.Kind {
	case "decode":
		w, err := rulegen.Decode(c.Bytes)
		if err != nil {
			return fmt.Sprintf("ToCommandLine(%d bytes: %x)", len(c.Bytes), c.Bytes)
		}
		return fmt.Sprintf("ToCommandLine(%d bytes: flags=%#x action=%#x field_count=%#x buflen=%#x fields[0..3]=%v values[0..3]=%#x ops[0..3]=%#x buf=%q)",
			len(c.Bytes), w.Flags, w.Action, w.FieldCount, w.BufLen, w.Fields[:4], w.Values[:4], w.FieldOps[:4], w.Buf)
	case "parse":
		return fmt.Sprintf("flags.Parse(%q)", c.Line)
	}
	return fmt.Sprintf("Build(type=%d list=%q action=%q filters=%v syscalls=%q keys=%q path=%q perms=%v)", c.RuleType, c.List, c.Action, c.Filters, c.Syscalls, c.Keys, c.Path, c.Perms)
}

var allocSample = []metrics.Sample{{Name: "/gc/heap/allocs:bytes"}}

// heapAllocs is the cheap, approximate allocation counter: the runtime flushes per-P statistics lazily,
// so a delta between two reads can contain allocations made long before. It is only used to pick
// candidates; exactAlloc decides.
func heapAllocs() uint64 {
	metrics.Read(allocSample)
	return allocSample[0].Value.Uint64()
}

// exactAlloc re-runs f between two runtime.ReadMemStats calls (which stop the world and flush every
// per-P cache, so TotalAlloc is exact) and returns the smallest of three measurements: allocations of
// background goroutines can only add to a measurement, never lower it.
func exactAlloc(f func()) uint64 {
	best := ^uint64(0)
	var a, b runtime.MemStats
	for i := 0; i < 3; i++ {
		runtime.ReadMemStats(&a)
		f()
		runtime.ReadMemStats(&b)
		if d := b.TotalAlloc - a.TotalAlloc; d < best {
			best = d
		}
	}
	return best
}

func (c C13Case) rule() rule.Rule {
	switch c.RuleType {
	case 1:
		w := &rule.FileWatchRule{Type: rule.Type(c.TypeCode), Path: strings.Replace(c.Path, "$SCRATCH", scratchDir, 1), Keys: c.Keys}
		for _, p := range c.Perms {
			w.Permissions = append(w.Permissions, rule.AccessType(p))
		}
		return w
	case 2:
		return &rule.DeleteAllRule{Type: rule.Type(c.TypeCode), Keys: c.Keys}
	case 3:
		return nil
	}
	return &rule.SyscallRule{Type: rule.Type(c.TypeCode), List: c.List, Action: c.Action, Filters: c.Filters, Syscalls: c.Syscalls, Keys: c.Keys}
}

const c13FollowUpText = "-a always,exit -F arch=b64 -S open,close -F uid=root -k follow-up"

func c13FollowUp() rule.Rule {
	return &rule.SyscallRule{Type: rule.AppendSyscallRuleType, List: "exit", Action: "always", Syscalls: []string{"open", "close"}, Keys: []string{"follow-up"},
		Filters: []rule.FilterSpec{{Type: rule.ValueFilterType, LHS: "arch", Comparator: "=", RHS: "b64"}, {Type: rule.ValueFilterType, LHS: "uid", Comparator: "=", RHS: "root"}}}
}

var c13FollowUpRef = func() []byte { b, _ := rule.Build(c13FollowUp()); return append([]byte(nil), b...) }()

// c13Oracle runs one input through the function under test.
func c13Oracle(c C13Case) (passedFirstStage bool, err error) {
	var inLen int
	before := heapAllocs()
	switch c.Kind {
	case "build":
		inLen = len(c.List) + len(c.Action) + len(c.Path)
		for _, f := range c.Filters {
			inLen += len(f.LHS) + len(f.Comparator) + len(f.RHS) + 16
		}
		for _, s := range append(append([]string{}, c.Syscalls...), c.Keys...) {
			inLen += len(s) + 16
		}
		r := c.rule()
		before = heapAllocs()
		wf, berr := rule.Build(r)
		after := heapAllocs()
		if (wf == nil) == (berr == nil) {
			return false, fmt.Errorf("Build returned (data nil=%v, err=%v): exactly one must be nil", wf == nil, berr)
		}
		if limit := 1<<20 + 64*uint64(inLen) + 2080; after-before > limit {
			if d := exactAlloc(func() { _, _ = rule.Build(r) }); d > limit {
				return false, fmt.Errorf("Build allocated %d bytes for an input of %d bytes", d, inLen)
			}
		}
		if berr != nil {
			// a refused rule leaves nothing behind: a plain rule that needs the tables (syscall by name, account by
			// name, a key) is built afterwards and must come out as it did when the process started
			// (a Build that never returns is reported by the hang watchdog, with this case)
			b, _ := rule.Build(c13FollowUp())
			if !bytes.Equal(b, c13FollowUpRef) {
				return false, fmt.Errorf("after this refused rule (%v) the plain rule %q is built as %x, at process start it was %x", berr, c13FollowUpText, b, c13FollowUpRef)
			}
			for i := range b { // the bytes are the caller's
				b[i] = 0xEE
			}
		}
		if berr == nil {
			if w, derr := rulegen.Decode(wf); derr != nil {
				return true, fmt.Errorf("Build produced undecodable data: %v", derr)
			} else if verr := w.StructurallyValid(); verr != nil {
				return true, fmt.Errorf("Build produced a structurally invalid rule: %v", verr)
			}
		}
		validLA := (c.List == "exit" || c.List == "task" || c.List == "user" || c.List == "exclude") && (c.Action == "always" || c.Action == "never")
		return c.RuleType == 0 && validLA, nil
	case "decode":
		inLen = len(c.Bytes)
		for _, resolve := range []bool{false, true} {
			before = heapAllocs()
			txt, derr := rule.ToCommandLine(rule.WireFormat(c.Bytes), resolve)
			after := heapAllocs()
			if derr != nil && txt != "" {
				return false, fmt.Errorf("ToCommandLine returned both text %q and error %v", txt, derr)
			}
			if limit := 1<<20 + 64*uint64(inLen); after-before > limit {
				if d := exactAlloc(func() { _, _ = rule.ToCommandLine(rule.WireFormat(c.Bytes), resolve) }); d > limit {
					return false, fmt.Errorf("ToCommandLine allocated %d bytes for an input of %d bytes", d, inLen)
				}
			}
			if derr == nil {
				w, e := rulegen.Decode(c.Bytes)
				if e != nil {
					return false, fmt.Errorf("ToCommandLine succeeded (%q) on bytes that are not a rule: %v", txt, e)
				}
				if verr := w.StructurallyValid(); verr != nil {
					return true, fmt.Errorf("ToCommandLine succeeded (%q) on a structurally invalid rule: %v", txt, verr)
				}
			}
		}
		return len(c.Bytes) >= rulegen.HeaderSize, nil
	default:
		inLen = len(c.Line)
		before = heapAllocs()
		r, perr := flags.Parse(string(c.Line))
		after := heapAllocs()
		if (r == nil) == (perr == nil) {
			return false, fmt.Errorf("Parse returned (rule nil=%v, err=%v): exactly one must be nil", r == nil, perr)
		}
		if limit := 1<<20 + 64*uint64(inLen); after-before > limit {
			if d := exactAlloc(func() { _, _ = flags.Parse(string(c.Line)) }); d > limit {
				return false, fmt.Errorf("Parse allocated %d bytes for an input of %d bytes", d, inLen)
			}
		}
		if perr == nil {
			// whatever Parse returns must be buildable or refused without a panic
			if _, berr := rule.Build(r); berr == nil {
				return true, nil
			}
			return true, nil
		}
		return !strings.Contains(perr.Error(), "nterminated"), nil
	}
}

func propC13(c C13Case) error {
	hC13.Begin("TestC13", c)
	ok, err := c13Oracle(c)
	hC13.End() // not deferred: after a panic or a fatal error the crash file must keep the case
	if err != nil {
		return fmt.Errorf("%s\n  %v", c.Describe(), err)
	}
	hC13.Class("kind-" + c.Kind)
	if ok {
		hC13.Class("passed-first-stage-" + c.Kind)
		switch c.Kind {
		case "decode":
			hC13.NonTrivial(hx.FP(c.Bytes), c.Describe)
		case "parse":
			hC13.NonTrivial(hx.FP(c.Line), c.Describe)
		default:
			hC13.NonTrivial(hx.FP(c.Describe()), c.Describe)
		}
	}
	return nil
}

// ---------------------------------------------------------------------------
// generators

var junkStrings = []string{"", " ", "exit", "always", "never", "task", "user", "exclude", "entry", "EXIT", "exit ", "=", "!=", ">=", "=>", "<>", "&", "&=",
	"uid", "gid", "auid", "arch", "perm", "key", "path", "dir", "exe", "exit", "msgtype", "filetype", "inode", "saddr_fam", "a0", "a3", "a4", "obj_uid", "subj_user",
	"field_compare", "0", "-1", "1", "4294967295", "4294967296", "-2147483649", "0x", "0xffffffff", "0x100000000", "077", "08", "1e3", "unset", "root", "nobody",
	"no-such-user", "b64", "b32", "x86_64", "aarch64", "mips", "ia64", "rwxa", "rwxaq", "file", "dir", "socket", "UNKNOWN[1]", "UNKNOWN[65536]", "UNKNOWN[", "SYSCALL",
	"-EPERM", "EPERM", "-EBOGUS", "--1", "all", "open", "read", "\x00", "\xff\xfe", "a\x01b", strings.Repeat("k", 256), strings.Repeat("k", 257),
	"/" + strings.Repeat("p", 4095), "/" + strings.Repeat("p", 4096), strings.Repeat("9", 40)}

var syscallStrings = []string{"-1", "0", "1", "63", "64", "2047", "2048", "2049", "2063", "2079", "2080", "2081", "4095", "65535", "2147483647", "2147483648",
	"4294967295", "4294967296", "4294967297", "4294969343", "9223372036854775807", "9223372036854775808", "-2147483648", "open", "read", "all", "ALL", "", " ", "0x10", "010", "nosuch"}

func genC13(t *rapid.T) C13Case {
	switch rapid.IntRange(0, 9).Draw(t, "family") {
	case 0, 1, 2:
		return genBuildCase(t)
	case 3, 4, 5, 6:
		return genDecodeCase(t)
	default:
		return genParseCase(t)
	}
}

func js(t *rapid.T, label string) string {
	return rapid.OneOf(rapid.SampledFrom(junkStrings), rapid.StringN(0, 12, 40)).Draw(t, label)
}

// scratchSpecialNames: the fifo and the socket of the scratch directory, by a name that is stable across processes
// (replay files must not carry the random directory): $SCRATCH/fifo is expanded when the rule is built.
func scratchSpecialNames() []string {
	return []string{"$SCRATCH/fifo", "$SCRATCH/sock", "$SCRATCH/link-to-dir"}
}

func genBuildCase(t *rapid.T) C13Case {
	c := C13Case{Kind: "build"}
	c.RuleType = rapid.SampledFrom([]int{0, 0, 0, 0, 0, 1, 1, 2, 3}).Draw(t, "ruletype")
	c.TypeCode = rapid.IntRange(-1, 6).Draw(t, "typecode")
	c.List = rapid.OneOf(rapid.SampledFrom([]string{"exit", "exit", "task", "user", "exclude"}), rapid.SampledFrom(junkStrings)).Draw(t, "list")
	c.Action = rapid.OneOf(rapid.SampledFrom([]string{"always", "never"}), rapid.SampledFrom(junkStrings)).Draw(t, "action")
	nf := rapid.OneOf(rapid.IntRange(0, 6), rapid.IntRange(60, 80)).Draw(t, "nfilters")
	for i := 0; i < nf; i++ {
		f := rule.FilterSpec{Type: rule.FilterType(rapid.SampledFrom([]int{2, 2, 2, 1, 0, 3}).Draw(t, "ftype"))}
		if rapid.Bool().Draw(t, "validish") {
			f.LHS = rapid.SampledFrom([]string{"uid", "gid", "auid", "pid", "arch", "perm", "key", "path", "dir", "exe", "exit", "msgtype", "filetype", "inode", "saddr_fam", "a0", "obj_uid", "subj_user", "euid", "success"}).Draw(t, "lhs")
			f.Comparator = rapid.SampledFrom(rulegen.AllOps).Draw(t, "op")
		} else {
			f.LHS, f.Comparator = js(t, "lhs"), js(t, "op")
		}
		f.RHS = js(t, "rhs")
		c.Filters = append(c.Filters, f)
	}
	for i, n := 0, rapid.IntRange(0, 5).Draw(t, "nsys"); i < n; i++ {
		c.Syscalls = append(c.Syscalls, rapid.OneOf(rapid.SampledFrom(syscallStrings),
			rapid.Map(rapid.Int64Range(-5, 1<<33), func(v int64) string { return strconv.FormatInt(v, 10) }),
			rapid.Map(rapid.IntRange(2040, 2090), func(v int) string { return strconv.Itoa(v) })).Draw(t, "sys"))
	}
	for i, n := 0, rapid.IntRange(0, 3).Draw(t, "nkeys"); i < n; i++ {
		c.Keys = append(c.Keys, js(t, "key"))
	}
	c.Path = rapid.OneOf(rapid.SampledFrom(append([]string{"/etc/passwd", "/", "/tmp", "relative", "", "/nonexistent", "/etc/../etc//passwd", "/dev/null", "/proc/self/mem"}, scratchSpecialNames()...)), rapid.SampledFrom(junkStrings)).Draw(t, "path")
	for i, n := 0, rapid.IntRange(0, 6).Draw(t, "nperms"); i < n; i++ {
		c.Perms = append(c.Perms, uint8(rapid.IntRange(0, 7).Draw(t, "perm")))
	}
	return c
}

var boundaryWords = []uint32{0, 1, 63, 64, 65, 255, 1 << 16, 1<<31 - 1, 1 << 31, 1<<32 - 2, 1<<32 - 1}

// catalogue of valid rules whose header words are replaced systematically
var catalogueLines = []string{
	"-a always,exit -S open -F uid=0 -k k1",
	"-a never,task",
	"-a always,exit -F arch=b64 -S execve,openat -F auid>=1000 -F auid!=4294967295 -k exec -k two",
	"-a always,exit -F arch=b32 -S 11 -F path=/etc/passwd -F perm=wa",
	"-w /etc/passwd -p wa -k passwd",
	"-w / -p rwxa",
	"-a always,exit -F dir=/etc -F perm=r -F key=x",
	"-a always,user -F msgtype=1112 -F uid!=0",
	"-a never,exclude -F msgtype=CWD",
	"-a always,exit -S all -F subj_user=u -F subj_role=r -F subj_type=t -F subj_sen=s -F subj_clr=c -F obj_user=ou -F obj_role=or -F obj_type=ot -F obj_lev_low=l -F obj_lev_high=h -F exe=/bin/ls",
	"-a always,exit -C uid!=euid -C gid=egid -F exit=-EACCES -F success=0",
	"-a always,exit -F filetype=dir -F inode=5 -F devmajor=8 -F devminor=1 -F a0=1 -F a1&2 -F a2&=3 -F a3<4",
	"-A always,exit -S 2047 -F saddr_fam=2 -F pid>1 -F ppid<=1 -F pers=0",
	"-a always,exit -F arch=aarch64 -S read,write -F euid=0 -F suid=0 -F fsuid=0 -F egid=0 -F sgid=0 -F fsgid=0 -F obj_uid=0 -F obj_gid=0",
	"-a always,exit -F exe=/usr/bin/sudo -F key=a -k b -k c",
}

func catalogue() [][]byte {
	var out [][]byte
	for _, l := range catalogueLines {
		r, err := flags.Parse(l)
		if err != nil {
			panic("catalogue line " + l + ": " + err.Error())
		}
		wf, err := rule.Build(r)
		if err != nil {
			panic("catalogue line " + l + ": " + err.Error())
		}
		out = append(out, []byte(wf))
	}
	return out
}

var cat [][]byte

func genDecodeCase(t *rapid.T) C13Case {
	if cat == nil {
		cat = catalogue()
	}
	c := C13Case{Kind: "decode"}
	switch rapid.IntRange(0, 5).Draw(t, "dkind") {
	case 0: // random bytes of any length
		c.Bytes = rapid.SliceOfN(rapid.Byte(), 0, 1200).Draw(t, "bytes")
	case 1: // truncation / extension of a valid rule
		b := append([]byte(nil), rapid.SampledFrom(cat).Draw(t, "base")...)
		n := rapid.OneOf(rapid.IntRange(0, len(b)), rapid.IntRange(1030, 1050), rapid.Just(len(b)+rapid.IntRange(0, 8).Draw(t, "ext"))).Draw(t, "len")
		for len(b) < n {
			b = append(b, rapid.Byte().Draw(t, "extbyte"))
		}
		c.Bytes = b[:n]
	default: // 1..4 header words replaced by boundary or random values
		b := append([]byte(nil), rapid.SampledFrom(cat).Draw(t, "base")...)
		for i, n := 0, rapid.IntRange(1, 4).Draw(t, "nwords"); i < n; i++ {
			w := rapid.OneOf(rapid.IntRange(0, 259), rapid.SampledFrom([]int{0, 1, 2, 67, 68, 131, 132, 195, 196, 259})).Draw(t, "word")
			v := rapid.OneOf(rapid.SampledFrom(boundaryWords), rapid.Uint32(), rapid.Uint32Range(0, 300)).Draw(t, "value")
			binary.NativeEndian.PutUint32(b[4*w:], v)
		}
		c.Bytes = b
	}
	return c
}

var flagAlphabet = []string{"-a", "-A", "-F", "-C", "-S", "-k", "-p", "-w", "-D", "--", "-", "-x", "always,exit", "exit,always", "never,task", "uid=0", "uid!=euid",
	"path=/tmp/x", "arch=b64", "a0>=5", "open,close", "all", "rwxa", "/etc/passwd", "key", "'", "\"", "\\", "'a b'", "\"a b\"", "a\\ b", "=", "-F=uid=0", "--F", "uid = 0",
	"-a=always,exit", "\t", "\n", "-S=", "-k=", "perm=rq", "msgtype=1", "exit=-EPERM", "filetype=file", "-p=", "-w="}

func genParseCase(t *rapid.T) C13Case {
	c := C13Case{Kind: "parse"}
	if rapid.IntRange(0, 3).Draw(t, "arbitrary") == 0 {
		c.Line = rapid.SliceOfN(rapid.Byte(), 0, 120).Draw(t, "line")
		return c
	}
	if rapid.IntRange(0, 2).Draw(t, "valid") == 0 {
		// a line the rule generator of C06/C07 makes (every filter class, keys given by -k and by -F key= side by
		// side, comparisons, watches ...): whatever such a line leads to, it is a rule or an error — and one
		// more token from the alphabet somewhere in it
		sp := rulegen.GenSpec(t, genOpts())
		args := sp.Args()
		if rapid.Bool().Draw(t, "extra") {
			i := rapid.IntRange(0, len(args)).Draw(t, "at")
			args = append(args[:i:i], append([]string{rapid.SampledFrom(flagAlphabet).Draw(t, "tok")}, args[i:]...)...)
		}
		q := make([]string, len(args))
		for i, a := range args {
			q[i] = rulegen.ShQuote(a)
		}
		c.Line = []byte(strings.Join(q, " "))
		return c
	}
	toks := rapid.SliceOfN(rapid.SampledFrom(flagAlphabet), 0, 14).Draw(t, "toks")
	c.Line = []byte(strings.Join(toks, rapid.SampledFrom([]string{" ", " ", "  ", ""}).Draw(t, "glue")))
	return c
}

func TestC13Regress(t *testing.T) { hx.Regress(t, hC13, "TestC13", propC13) }

func TestC13(t *testing.T) { hx.Check(t, hC13, "TestC13", genC13, propC13) }

// TestC13HeaderWords: every rule of the catalogue with each of its 260 header
// words replaced by each boundary value; in the thorough tier additionally
// pairs of words whose sum overflows.
func TestC13HeaderWords(t *testing.T) {
	cat = catalogue()
	n := 0
	run := func(b []byte) {
		c := C13Case{Kind: "decode", Bytes: b}
		hC13.Eval()
		n++
		if err := hx.Guard(propC13, c); err != nil {
			hC13.Fail(t, "TestC13", c, "%v", err)
		}
	}
	for _, base := range cat {
		for w := 0; w < 260; w++ {
			for _, v := range boundaryWords {
				b := append([]byte(nil), base...)
				binary.NativeEndian.PutUint32(b[4*w:], v)
				run(b)
			}
		}
		// every truncation length around the header end and every shorter multiple of 64
		for l := 0; l <= len(base); l++ {
			if l%64 == 0 || (l > 1030 && l < 1060) || l > len(base)-6 {
				run(append([]byte(nil), base[:l]...))
			}
		}
	}
	if hx.Thorough() {
		pairs := [][2]uint32{{1<<32 - 1, 1}, {1 << 31, 1 << 31}, {1<<32 - 2, 3}, {64, 1<<32 - 1}, {1<<32 - 1, 1<<32 - 1}, {1, 1<<32 - 1}}
		words := []int{2, 259} // field_count, buflen
		for i := 0; i < 6; i++ {
			words = append(words, 67+i, 131+i, 195+i) // fields[i], values[i], fieldflags[i]
		}
		for _, base := range cat {
			for _, a := range words {
				for _, bw := range words {
					if a == bw {
						continue
					}
					for _, p := range pairs {
						b := append([]byte(nil), base...)
						binary.NativeEndian.PutUint32(b[4*a:], p[0])
						binary.NativeEndian.PutUint32(b[4*bw:], p[1])
						run(b)
					}
				}
			}
		}
	}
	hC13.Extra("header_word_sweep_cases", n)
}

// ---------------------------------------------------------------------------
// native fuzz targets (thorough tier)

func FuzzToCommandLine(f *testing.F) {
	for _, b := range catalogue() {
		f.Add(b)
	}
	f.Fuzz(func(t *testing.T, b []byte) {
		c := C13Case{Kind: "decode", Bytes: b}
		if _, err := c13Oracle(c); err != nil {
			t.Fatalf("VERIF-VIOLATION property=C13 case=fuzz\n%s\n%v", c.Describe(), err)
		}
	})
}

func FuzzFlagsParse(f *testing.F) {
	for _, l := range catalogueLines {
		f.Add(l)
	}
	for _, tok := range flagAlphabet {
		f.Add("-a always,exit -F " + tok)
	}
	f.Fuzz(func(t *testing.T, line string) {
		c := C13Case{Kind: "parse", Line: []byte(line)}
		if _, err := c13Oracle(c); err != nil {
			t.Fatalf("VERIF-VIOLATION property=C13 case=fuzz\n%s\n%v", c.Describe(), err)
		}
	})
}

func FuzzBuild(f *testing.F) {
	f.Add("exit", "always", "uid", "=", "0", "open", "k")
	f.Add("task", "never", "arch", "!=", "b64", "2048", "")
	f.Add("exit", "always", "path", "=", "/etc/passwd", "4294967296", strings.Repeat("k", 257))
	f.Fuzz(func(t *testing.T, list, action, lhs, op, rhs, sys, key string) {
		c := C13Case{Kind: "build", List: list, Action: action, TypeCode: 3,
			Filters:  []rule.FilterSpec{{Type: rule.ValueFilterType, LHS: lhs, Comparator: op, RHS: rhs}, {Type: rule.InterFieldFilterType, LHS: lhs, Comparator: op, RHS: rhs}},
			Syscalls: []string{sys}, Keys: []string{key}}
		if _, err := c13Oracle(c); err != nil {
			t.Fatalf("VERIF-VIOLATION property=C13 case=fuzz\n%s\n%v", c.Describe(), err)
		}
	})
}

// valuePieces: what the value grammars of the fields are made of (numbers, errno and record type names,
// UNKNOWN[n], arch names, permission letters, key separators ...). Glued together they reach the corners
// of every value parser, also the ones in the helper packages Build hands the text to.
var valuePieces = []string{"UNKNOWN", "[", "]", "1", "1329", "-", "E", "PERM", "0x", "f", ",", "b64", " ", "=", "/", "\x01", "unset", "4294967296", "SYSCALL", "+"}

// TestC13ValueSweep: every field name x {exit, exclude, user} x every junk string and every concatenation
// of up to two (thorough: three) value pieces, through Build and through the flag parser.
func TestC13ValueSweep(t *testing.T) {
	var values []string
	values = append(values, junkStrings...)
	depth := 2
	if hx.Thorough() {
		depth = 3
	}
	var rec func(prefix string, d int)
	rec = func(prefix string, d int) {
		if d > 0 {
			values = append(values, prefix)
		}
		if d == depth {
			return
		}
		for _, p := range valuePieces {
			rec(prefix+p, d+1)
		}
	}
	rec("", 0)
	var fields []string
	for name := range rulegen.FieldConst {
		fields = append(fields, name)
	}
	sort.Strings(fields)
	for _, list := range []string{"exit", "exclude", "user"} {
		for _, field := range fields {
			for _, v := range values {
				c := C13Case{Kind: "build", TypeCode: int(rule.AppendSyscallRuleType), List: list, Action: "always",
					Filters: []rule.FilterSpec{{Type: rule.ValueFilterType, LHS: field, Comparator: "=", RHS: v}}}
				hC13.Eval()
				if err := hx.Guard(propC13, c); err != nil {
					hC13.Fail(t, "TestC13", c, "%v", err)
				}
			}
		}
	}
	// every architecture name (and every junk value) in front of syscalls given by name and by number
	for _, arch := range append(append([]string{}, rulegen.ArchList...), junkStrings...) {
		for _, sys := range [][]string{{"read"}, {"open", "close"}, {"1"}, {"no_such_syscall"}, {"all"}} {
			for _, op := range []string{"=", "!="} {
				c := C13Case{Kind: "build", TypeCode: int(rule.AppendSyscallRuleType), List: "exit", Action: "always", Syscalls: sys,
					Filters: []rule.FilterSpec{{Type: rule.ValueFilterType, LHS: "arch", Comparator: op, RHS: arch}}}
				hC13.Eval()
				if err := hx.Guard(propC13, c); err != nil {
					hC13.Fail(t, "TestC13", c, "%v", err)
				}
			}
		}
	}
	hC13.Class("arch-x-syscall-sweep")
	// the same values as the right-hand side of a flag line
	for _, field := range []string{"msgtype", "exit", "arch", "uid", "perm", "filetype", "key", "a0"} {
		for _, v := range values {
			c := C13Case{Kind: "parse", Line: []byte("-a always,exclude -F " + rulegen.ShQuote(field+"="+v))}
			hC13.Eval()
			if err := hx.Guard(propC13, c); err != nil {
				hC13.Fail(t, "TestC13", c, "%v", err)
			}
		}
	}
	hC13.Class("value-sweep")
}

// TestC13FieldValueGrid: the first field of a valid one-field rule replaced by every field code 0..255 with every
// small value (0..130; thorough: 0..300 and both equality operators): the values that index a table of names
// (comparison codes, record types, file types, permission bits, architectures) lie here, one past the end of
// each table included.
func TestC13FieldValueGrid(t *testing.T) {
	base := []byte(mustBuildLine(t, "-a always,exit -F pid=1"))
	maxV, ops := uint32(130), []uint32{uapi.A("AUDIT_EQUAL")}
	if hx.Thorough() {
		maxV, ops = 300, []uint32{uapi.A("AUDIT_EQUAL"), uapi.A("AUDIT_NOT_EQUAL")}
	}
	for field := uint32(0); field < 256; field++ {
		for v := uint32(0); v <= maxV; v++ {
			for _, op := range ops {
				b := append([]byte(nil), base...)
				binary.NativeEndian.PutUint32(b[rulegen.OffFields:], field)
				binary.NativeEndian.PutUint32(b[rulegen.OffValues:], v)
				binary.NativeEndian.PutUint32(b[rulegen.OffFieldFlags:], op)
				if rulegen.IsStringField(field) {
					b = append(b, bytes.Repeat([]byte{'s'}, int(v))...)
					binary.NativeEndian.PutUint32(b[rulegen.OffBufLen:], v)
				}
				c := C13Case{Kind: "decode", Bytes: b}
				hC13.Eval()
				if err := hx.Guard(propC13, c); err != nil {
					hC13.Fail(t, "TestC13", c, "%v", err)
				}
			}
		}
	}
	hC13.Class("field-value-grid")
}

func mustBuildLine(t *testing.T, line string) rule.WireFormat {
	r, err := flags.Parse(line)
	if err != nil {
		t.Fatalf("%s: %v", line, err)
	}
	wf, err := rule.Build(r)
	if err != nil {
		t.Fatalf("%s: %v", line, err)
	}
	return wf
}

// TestC13FieldCount: rules around the 64-field limit built from valid filters only, in every mix of value
// filters (-F), inter-field comparisons (-C) and keys, through the struct API and through the flag parser.
func TestC13FieldCount(t *testing.T) {
	n := 0
	valF := rule.FilterSpec{Type: rule.ValueFilterType, LHS: "pid", Comparator: "!=", RHS: "1"}
	cmpF := rule.FilterSpec{Type: rule.InterFieldFilterType, LHS: "auid", Comparator: "!=", RHS: "uid"}
	strF := rule.FilterSpec{Type: rule.ValueFilterType, LHS: "subj_user", Comparator: "=", RHS: "u"}
	for total := 60; total <= 70; total++ {
		for pattern := 0; pattern < 6; pattern++ {
			for _, keys := range [][]string{nil, {"k"}, {"k1", "k2"}} {
				var fs []rule.FilterSpec
				for i := 0; i < total; i++ {
					f := valF
					switch pattern {
					case 1: // all comparisons
						f = cmpF
					case 2: // the last one is a comparison
						if i == total-1 {
							f = cmpF
						}
					case 3: // alternating
						if i%2 == 1 {
							f = cmpF
						}
					case 4: // everything from the 64th on is a comparison
						if i >= 63 {
							f = cmpF
						}
					case 5: // string fields (they also use the buffer)
						f = strF
					}
					fs = append(fs, f)
				}
				c := C13Case{Kind: "build", TypeCode: int(rule.AppendSyscallRuleType), List: "exit", Action: "always", Filters: fs, Keys: keys}
				hC13.Eval()
				n++
				if err := hx.Guard(propC13, c); err != nil {
					hC13.Fail(t, "TestC13", c, "%v", err)
				}
				// the same rule as a line
				var b strings.Builder
				b.WriteString("-a always,exit")
				for _, f := range fs {
					fl := " -F "
					if f.Type == rule.InterFieldFilterType {
						fl = " -C "
					}
					b.WriteString(fl + f.LHS + f.Comparator + f.RHS)
				}
				for _, k := range keys {
					b.WriteString(" -k " + k)
				}
				lc := C13Case{Kind: "parse", Line: []byte(b.String())}
				hC13.Eval()
				n++
				if err := hx.Guard(propC13, lc); err != nil {
					hC13.Fail(t, "TestC13", lc, "%v", err)
				}
			}
		}
	}
	hC13.Extra("field_count_sweep_cases", n)
}
