package rules

import (
	"bytes"
	"fmt"
	"os"
	"path/filepath"
	"strings"
	"testing"

	"github.com/elastic/go-libaudit/v2/rule"
	"github.com/elastic/go-libaudit/v2/rule/flags"
	"pgregory.net/rapid"

	"verif/internal/hx"
	"verif/internal/rulegen"
	"verif/internal/uapi"
)

// C07 — decoding a built rule gives text that re-encodes to the same rule.

var hC07 = hx.New("C07", "the C06 rule grammar restricted as the property says (string values non-empty and without whitespace, quote characters or backslash; rules that have a perm filter use an existing scratch file for path= and an existing scratch directory for dir=; resolveIds=false; amd64), both routes; oracle: Build -> ToCommandLine -> flags.Parse -> Build gives byte-identical wire data and ToCommandLine of those bytes gives the same text again (on mismatch the independent decoder names the differing triple). Non-trivial = accepted rule with an operator other than '=', an id >= 2^31, a numeric-only syscall, several keys, an arch other than the runtime arch, or watch shape; distinct by hash of the wire bytes")

func genC07(rt *rapid.T) rulegen.Spec {
	o := genOpts()
	o.Strict = true
	if rapid.IntRange(0, 9).Draw(rt, "watchshaped") == 0 {
		// a syscall rule that is printed in the -w form: dir= an existing directory or a link to one, path=
		// anything that is not a directory (stat follows symbolic links)
		if rapid.Bool().Draw(rt, "asdir") {
			return rulegen.GenWatchShaped(rt, o, "dir", rapid.SampledFrom([]string{filepath.Join(scratchDir, "link-to-dir"), scratchDir,
				filepath.Join(scratchDir, "sub"), filepath.Join(scratchDir, "link-to-link"), "/"}).Draw(rt, "existingdir"))
		}
		if rapid.IntRange(0, 3).Draw(rt, "longname") == 0 {
			// names around the limits file systems and the library state (NAME_MAX 255, PATH_MAX 4096): such a
			// path does not exist, so it is a non-directory
			n := rapid.SampledFrom([]int{256, 255, 257, 300, 1000, 4000}).Draw(rt, "namelen")
			p := filepath.Join(scratchDir, strings.Repeat("n", n))
			if rapid.Bool().Draw(rt, "longdir") {
				p = filepath.Join(scratchDir, strings.Repeat("d", n), "f")
			}
			if len(p) > 4096 {
				p = p[:4096]
			}
			return rulegen.GenWatchShaped(rt, o, "path", p)
		}
		if rapid.IntRange(0, 2).Draw(rt, "oddname") == 0 {
			// any file name is a file name: glob characters, shell characters, a leading dash (such a path does not
			// exist, so it is a non-directory)
			p := filepath.Join(scratchDir, rulegen.StrictName(rt, "oddname"))
			if st, err := os.Stat(p); err == nil && st.IsDir() {
				// "." and "..", the names of the scratch sub-directory and of the links to directories are file names
				// too, but they name directories: outside the domain of path= in a watch-shaped rule (see below)
				p = filepath.Join(scratchDir, "missing")
			}
			return rulegen.GenWatchShaped(rt, o, "path", p)
		}
		return rulegen.GenWatchShaped(rt, o, "path", rapid.SampledFrom([]string{filepath.Join(scratchDir, "link-to-file"), scratchFile,
			filepath.Join(scratchDir, "link-to-nothing"), filepath.Join(scratchDir, "missing")}).Draw(rt, "nondir"))
	}
	s := rulegen.GenSpec(rt, o)
	hasPerm := false
	for _, f := range s.Filters {
		if f.LHS == "perm" && !f.C {
			hasPerm = true
		}
	}
	if hasPerm {
		// watch-shaped rules must agree with the filesystem (the -w form re-derives path/dir by stat, which
		// follows symbolic links): dir= an existing directory or a link to one, path= anything else
		dirs := []string{scratchDir, filepath.Join(scratchDir, "link-to-dir"), filepath.Join(scratchDir, "sub"), filepath.Join(scratchDir, "link-to-link")}
		files := []string{scratchFile, filepath.Join(scratchDir, "link-to-file"), filepath.Join(scratchDir, "link-to-nothing"), filepath.Join(scratchDir, "missing")}
		for i := range s.Filters {
			f := &s.Filters[i]
			switch {
			case f.C:
			case f.LHS == "dir":
				f.RHS = []byte(rapid.SampledFrom(dirs).Draw(rt, "existingdir"))
				f.Val = uint32(len(f.RHS))
			case f.LHS == "path":
				f.RHS = []byte(rapid.SampledFrom(files).Draw(rt, "nondir"))
				f.Val = uint32(len(f.RHS))
			}
		}
	}
	return s
}

// archToFront returns a copy of the rule with the arch triple moved to the
// first position (what the printed text, like auditctl -l, does).
func archToFront(b []byte) []byte {
	w, err := rulegen.Decode(b)
	if err != nil || w.FieldCount > rulegen.MaxFields {
		return b
	}
	idx := -1
	for i := 0; i < int(w.FieldCount); i++ {
		if w.Fields[i] == uapi.A("AUDIT_ARCH") {
			idx = i
			break
		}
	}
	if idx <= 0 {
		return b
	}
	out := append([]byte(nil), b...)
	get := func(base, i int) []byte { return b[base+4*i : base+4*i+4] }
	for _, base := range []int{rulegen.OffFields, rulegen.OffValues, rulegen.OffFieldFlags} {
		copy(out[base:], get(base, idx))
		for i := 0; i < idx; i++ {
			copy(out[base+4*(i+1):], get(base, i))
		}
	}
	return out
}

func diffWire(a, b []byte) string {
	wa, ea := rulegen.Decode(a)
	wb, eb := rulegen.Decode(b)
	if ea != nil || eb != nil {
		return fmt.Sprintf("undecodable: %v / %v", ea, eb)
	}
	switch {
	case wa.Flags != wb.Flags:
		return fmt.Sprintf("flags %#x vs %#x", wa.Flags, wb.Flags)
	case wa.Action != wb.Action:
		return fmt.Sprintf("action %d vs %d", wa.Action, wb.Action)
	case wa.FieldCount != wb.FieldCount:
		return fmt.Sprintf("field_count %d vs %d", wa.FieldCount, wb.FieldCount)
	case wa.Mask != wb.Mask:
		for i := range wa.Mask {
			if wa.Mask[i] != wb.Mask[i] {
				return fmt.Sprintf("syscall mask word %d: %#x vs %#x", i, wa.Mask[i], wb.Mask[i])
			}
		}
	}
	for i := 0; i < rulegen.MaxFields; i++ {
		if wa.Fields[i] != wb.Fields[i] || wa.Values[i] != wb.Values[i] || wa.FieldOps[i] != wb.FieldOps[i] {
			return fmt.Sprintf("triple %d: (field %d, op %#x, value %#x) vs (field %d, op %#x, value %#x)", i, wa.Fields[i], wa.FieldOps[i], wa.Values[i], wb.Fields[i], wb.FieldOps[i], wb.Values[i])
		}
	}
	if !bytes.Equal(wa.Buf, wb.Buf) {
		return fmt.Sprintf("string buffer %q vs %q", wa.Buf, wb.Buf)
	}
	return "no structural difference (length or padding)"
}

// ambiguousReading returns the rule one gets when every filter "f<=v" (operator '<', '>' or '&' with a
// string value that starts with '=') is read as the two-character operator followed by the rest.
func ambiguousReading(s rulegen.Spec) (rulegen.Spec, bool) {
	alt := s
	alt.Filters = append([]rulegen.Filter(nil), s.Filters...)
	any := false
	for i, f := range alt.Filters {
		if !f.C && f.IsStr && (f.Op == "<" || f.Op == ">" || f.Op == "&") && len(f.RHS) > 1 && f.RHS[0] == '=' {
			f.Op += "="
			f.OpC = uapi.A(rulegen.OpConst[f.Op])
			f.RHS = f.RHS[1:]
			f.Val = uint32(len(f.RHS))
			alt.Filters[i] = f
			any = true
		}
	}
	return alt, any
}

// archFirst returns the spec with its arch filter moved to the front.
func archFirst(s rulegen.Spec) rulegen.Spec {
	alt := s
	alt.Filters = nil
	for _, f := range s.Filters {
		if f.LHS == "arch" && !f.C {
			alt.Filters = append([]rulegen.Filter{f}, alt.Filters...)
		} else {
			alt.Filters = append(alt.Filters, f)
		}
	}
	return alt
}

func propC07(s rulegen.Spec) error {
	wf, stage, err := build(s)
	if err != nil {
		hC07.Class("rejected-by-" + stage)
		return nil
	}
	hC07.Class("accepted")
	txt, err := rule.ToCommandLine(wf, false)
	if err != nil {
		return fmt.Errorf("%s\n  ToCommandLine fails on the wire form Build produced: %v", s.Describe(), err)
	}
	r2, err := flags.Parse(txt)
	if err != nil {
		return fmt.Errorf("%s\n  displayed as %q, which flags.Parse rejects: %v", s.Describe(), txt, err)
	}
	wf2, err := rule.Build(r2)
	if err != nil {
		return fmt.Errorf("%s\n  displayed as %q, which Build rejects: %v", s.Describe(), txt, err)
	}
	if !bytes.Equal(wf, wf2) {
		if moved := archToFront(wf); !bytes.Equal(moved, wf) && bytes.Equal(moved, wf2) {
			if !hC07.Known("arch-not-first-reordered", s.Describe()+" displayed as "+txt) {
				return fmt.Errorf("%s\n  displayed as %q, which re-encodes with the arch filter moved to the front", s.Describe(), txt)
			}
		} else if alt, ok := ambiguousReading(s); ok && archFirst(alt).Expect(wf2) == nil && !bytes.Equal(archToFront(wf), wf) {
			// both known shapes in one rule
			if !hC07.Known("operator-equals-ambiguity", s.Describe()+" displayed as "+txt) || !hC07.Known("arch-not-first-reordered", s.Describe()+" displayed as "+txt) {
				return fmt.Errorf("%s\n  displayed as %q, which reads back with the arch filter moved and an operator/value shifted by one '='", s.Describe(), txt)
			}
			return nil
		} else if alt, ok := ambiguousReading(s); ok && alt.Expect(wf2) == nil {
			// the text of '<' + "=v" is the text of '<=' + "v": the format itself is ambiguous
			if !hC07.Known("operator-equals-ambiguity", s.Describe()+" displayed as "+txt) {
				return fmt.Errorf("%s\n  displayed as %q, which reads back with the operator and the value shifted by one '='", s.Describe(), txt)
			}
			return nil
		} else {
			return fmt.Errorf("%s\n  displayed as %q, which re-encodes to a different rule: %s", s.Describe(), txt, diffWire(wf, wf2))
		}
	}
	txt2, err := rule.ToCommandLine(wf2, false)
	if err != nil || txt2 != txt {
		return fmt.Errorf("%s\n  displayed as %q; the re-encoded rule is displayed as %q (err %v)", s.Describe(), txt, txt2, err)
	}
	nt := false
	mark := func(c string) { hC07.Class(c); nt = true }
	for _, f := range s.Filters {
		if f.Op != "=" {
			mark("operator-not-equal-sign")
		}
		if (f.Class == "uid" || f.Class == "gid") && f.Val >= 1<<31 {
			mark("id-ge-2^31")
		}
		if f.Class == "arch" && string(f.RHS) != "b64" && string(f.RHS) != "x86_64" {
			mark("arch-other-than-runtime")
		}
		hC07.Class("field-class-" + f.Class)
	}
	for _, sc := range s.Sys {
		if sc.Num >= 0 && sc.Text[0] >= '0' && sc.Text[0] <= '9' {
			mark("numeric-syscall")
		}
	}
	if len(s.Keys) > 1 {
		mark("multi-key")
	}
	if len(txt) > 2 && txt[:2] == "-w" {
		mark("displayed-as-watch")
	}
	if nt {
		hC07.NonTrivial(hx.FP([]byte(wf)), func() string { return s.Describe() + " => " + txt })
	}
	return nil
}

func TestC07Regress(t *testing.T) { hx.Regress(t, hC07, "TestC07", propC07) }

func TestC07(t *testing.T) { hx.Check(t, hC07, "TestC07", genC07, propC07) }

// TestC07Syscalls: every syscall number 0..2047 and every named syscall of the
// kernel header snapshot round-trips through the text form, alone and under
// each arch spelling.
func TestC07Syscalls(t *testing.T) {
	eq := uapi.A("AUDIT_EQUAL")
	n := 0
	for _, arch := range []string{"", "b64", "b32", "x86_64", "i386", "aarch64", "arm", "ppc64", "s390x", "mips"} {
		step := 1
		if arch != "" && arch != "b32" {
			step = 7
		}
		for num := 0; num < 2048; num += step {
			s := rulegen.Spec{List: "exit", Action: "always", Sys: []rulegen.Sys{{Text: fmt.Sprint(num), Num: int64(num)}}, Struct: true}
			if arch != "" {
				if _, ok := rulegen.ArchNames[arch]; !ok && arch != "b64" && arch != "b32" {
					continue
				}
				s.Filters = []rulegen.Filter{{LHS: "arch", Op: "=", RHS: []byte(arch), Field: uapi.A("AUDIT_ARCH"), OpC: eq, Class: "arch"}}
			}
			hC07.Eval()
			n++
			if err := hx.Guard(propC07, s); err != nil {
				hC07.Fail(t, "TestC07", s, "%v", err)
			}
		}
	}
	hC07.Extra("syscall_sweep_cases", n)
}

// TestC07NumberSweeps: the fields whose numbers are displayed by name, with every number: every record type
// 0..65535 as a msgtype filter (user and exclude list), every exit code -4200..4200, every file type 0..15 (as far
// as Build takes them): whatever name the display picks for a number, the text means that number again.
func TestC07NumberSweeps(t *testing.T) {
	eq := uapi.A("AUDIT_EQUAL")
	run := func(list, lhs, rhs string, field uint32, val uint32, class string) {
		s := rulegen.Spec{List: list, Action: "always", Struct: true,
			Filters: []rulegen.Filter{{LHS: lhs, Op: "=", RHS: []byte(rhs), Field: field, OpC: eq, Val: val, Class: class}}}
		hC07.Eval()
		if err := hx.Guard(propC07, s); err != nil {
			hC07.Fail(t, "TestC07", s, "%v", err)
		}
	}
	for n := 0; n < 65536; n++ {
		run([]string{"exclude", "user"}[n%2], "msgtype", fmt.Sprint(n), uapi.A("AUDIT_MSGTYPE"), uint32(n), "msgtype-number")
	}
	for n := -4200; n <= 4200; n++ {
		run("exit", "exit", fmt.Sprint(n), uapi.A("AUDIT_EXIT"), uint32(int32(n)), "exit-number")
	}
	hC07.Class("number-sweeps")
}
