package rules

import (
	"fmt"
	"strconv"
	"strings"
	"testing"
	"unicode"

	"github.com/elastic/go-libaudit/v2/rule"
	"github.com/elastic/go-libaudit/v2/rule/flags"
	"pgregory.net/rapid"

	"verif/internal/hx"
	"verif/internal/rulegen"
)

// C14 — flags.Parse accounts for every token of the line or rejects it.

var hC14 = hx.New("C14", "rapid-generated token lists (valid and invalid combinations in any order of -a/-A in both orders and with invalid words, -F/-C arguments whose value contains spaces, '=', operator characters, leading/trailing junk, -S/-k comma lists with spaces, -p sets incl. invalid letters, repeated -w/-a/-A, -D, stray positional words at any position, '--', unknown flags, the -x=v and --x forms), rendered with the harness' own shell quoting; oracle: reference interpretation computed from the token list (independent of package flag): whatever is accepted must reflect every token. Non-trivial = accepted line with a filter value containing a space, '=' or an operator character, or a line carrying a token that must not be ignored (stray word, unknown flag, repetition, mixed families) ; distinct by hash of the argument list")

type Tok struct {
	Flag string `json:"flag,omitempty"` // a, A, F, C, S, k, p, w, D; "" = positional word; "?" = unknown flag
	Val  string `json:"val"`
	Form int    `json:"form"` // 0: -x v   1: -x=v   2: --x v   3: --x=v
}

type C14Case struct {
	Toks []Tok `json:"toks"`
	// Dangling: raw text appended to the line that leaves it untokenisable (a backslash with nothing to escape,
	// an opening quote that is never closed): no rule can reflect such a line
	Dangling string `json:"dangling,omitempty"`
}

func (c C14Case) args() []string {
	var a []string
	for _, t := range c.Toks {
		switch {
		case t.Flag == "":
			a = append(a, t.Val)
		case t.Flag == "?":
			a = append(a, t.Val)
		case t.Flag == "D":
			d := []string{"-D", "-D", "--D", "--D"}[t.Form%4]
			if t.Val != "" {
				d += "=" + t.Val // the boolean value syntax of Go's flag package: -D=false is still a -D on the line
			}
			a = append(a, d)
		default:
			dash := "-"
			if t.Form >= 2 {
				dash = "--"
			}
			if t.Form%2 == 1 {
				a = append(a, dash+t.Flag+"="+t.Val)
			} else {
				a = append(a, dash+t.Flag, t.Val)
			}
		}
	}
	return a
}

func (c C14Case) line() string {
	args := c.args()
	q := make([]string, len(args))
	for i, a := range args {
		q[i] = rulegen.ShQuote(a)
	}
	return strings.Join(q, " ") + c.Dangling
}

func (c C14Case) Describe() string { return fmt.Sprintf("line=%q args=%q", c.line(), c.args()) }

func genC14(t *rapid.T) C14Case {
	var c C14Case
	n := rapid.IntRange(1, 7).Draw(t, "ntok")
	if rapid.IntRange(0, 24).Draw(t, "longline") == 0 {
		n = rapid.SampledFrom([]int{65, 64, 33, 129, 17}).Draw(t, "ntoklong") // a line of dozens of flags: every one of them counts
	}
	form := func() int {
		return rapid.SampledFrom([]int{0, 0, 0, 0, 1, 2, 3}).Draw(t, "form")
	}
	if rapid.Bool().Draw(t, "clean") {
		// a line of one family whose every argument is valid (most random lines are refused for one junk
		// argument; the clauses about accepted lines need accepted lines): tricky but valid values, every form
		if rapid.Bool().Draw(t, "cleanwatch") {
			c.Toks = append(c.Toks, Tok{Flag: "w", Val: rapid.SampledFrom([]string{"/etc/passwd", "/tmp/my file", "/a", "/tmp/it's", "/x=y", "/a,b", ""}).Draw(t, "w"), Form: form()})
			if rapid.IntRange(0, 4).Draw(t, "secondw") == 0 {
				// -w twice (also with an empty value in either place): never a rule
				c.Toks = append(c.Toks, Tok{Flag: "w", Val: rapid.SampledFrom([]string{"/etc/passwd", "", "/b", ""}).Draw(t, "w2"), Form: form()})
			}
			for i := 0; i < n-1; i++ {
				if rapid.Bool().Draw(t, "cleanp") {
					c.Toks = append(c.Toks, Tok{Flag: "p", Form: form(), Val: rapid.SampledFrom([]string{"r", "wa", "rwxa", "x", "ar", "rr"}).Draw(t, "p")})
				} else {
					c.Toks = append(c.Toks, Tok{Flag: "k", Form: form(), Val: rapid.SampledFrom([]string{"k", "sys_admin", "a b", "a,b", "x=y", "k1,k 2,k3", "-k", "#c", "mounts, sys_mount", "sys_", "open", "all", "always,exit", "0x10", "-1", "unset", "b64"}).Draw(t, "k")})
				}
			}
		} else {
			c.Toks = append(c.Toks, Tok{Flag: rapid.SampledFrom([]string{"a", "A"}).Draw(t, "aA"), Val: rapid.SampledFrom([]string{"always,exit", "exit,always", "never,exit", "exit,never"}).Draw(t, "la"), Form: form()})
			if rapid.IntRange(0, 5).Draw(t, "seconda") == 0 {
				c.Toks = append(c.Toks, Tok{Flag: rapid.SampledFrom([]string{"a", "A"}).Draw(t, "aA2"), Val: rapid.SampledFrom([]string{"always,exit", "", "never,task"}).Draw(t, "la2"), Form: form()})
			}
			for i := 0; i < n-1; i++ {
				switch rapid.IntRange(0, 4).Draw(t, "cleantok") {
				case 0, 1:
					lhs := rapid.SampledFrom([]string{"uid", "path", "a0", "key", "exit", "obj_uid", "subj_user", "auid", "dir"}).Draw(t, "lhs")
					op := rapid.SampledFrom([]string{"=", "!=", "<", ">", "<=", ">=", "&", "&="}).Draw(t, "op")
					rhs := rapid.SampledFrom([]string{"0", "/tmp/my file", "/a=b", ">5", "x y z", "5 ", " 5", "-EACCES", "a&b", "q uid=1", "a<b", "it's", `say "x"`, "1\n2", "tab\tx", "!x"}).Draw(t, "rhs")
					c.Toks = append(c.Toks, Tok{Flag: "F", Form: form(), Val: lhs + op + rhs})
				case 2:
					c.Toks = append(c.Toks, Tok{Flag: "C", Form: form(), Val: rapid.SampledFrom([]string{"uid=euid", "uid!=euid", "auid!=obj_uid", "gid=egid", "suid=euid"}).Draw(t, "C")})
				case 3:
					c.Toks = append(c.Toks, Tok{Flag: "S", Form: form(), Val: rapid.SampledFrom([]string{"open", "sys_open", "open,close", " read , write", "all", "1,2,3", "execve", "sys_read,sys_write", "__NR_open", "SYS_open"}).Draw(t, "S")})
				default:
					c.Toks = append(c.Toks, Tok{Flag: "k", Form: form(), Val: rapid.SampledFrom([]string{"k", "sys_admin", "a b", "a,b", "x=y", "k1,k 2,k3", "sys_", "open", "all", "key=x", "k=", "-EPERM", "unset"}).Draw(t, "k")})
				}
			}
		}
		if rapid.IntRange(0, 2).Draw(t, "shuffle") == 0 {
			c.Toks = rapid.Permutation(c.Toks).Draw(t, "perm")
		}
		return c
	}
	// about half of the lines start from a valid skeleton
	switch rapid.IntRange(0, 5).Draw(t, "skeleton") {
	case 0, 1:
		c.Toks = append(c.Toks, Tok{Flag: rapid.SampledFrom([]string{"a", "a", "A"}).Draw(t, "aA"),
			Val: rapid.SampledFrom([]string{"always,exit", "exit,always", "never,task", "always,user", "never,exclude", "exit,never"}).Draw(t, "la"), Form: form()})
	case 2:
		c.Toks = append(c.Toks, Tok{Flag: "w", Val: rapid.SampledFrom([]string{"/etc/passwd", "/tmp/my file", "/a"}).Draw(t, "w"), Form: form()})
	}
	for i := 0; i < n; i++ {
		switch rapid.IntRange(0, 13).Draw(t, "tok") {
		case 0:
			c.Toks = append(c.Toks, Tok{Flag: "a", Form: form(), Val: rapid.SampledFrom([]string{"always,exit", "exit,always", "never,task", "always,user",
				"never,exclude", " always , exit ", "always", "exit", "always,exit,task", "bogus,exit", "", "always,always", "exit,task"}).Draw(t, "a")})
		case 1:
			c.Toks = append(c.Toks, Tok{Flag: "A", Form: form(), Val: rapid.SampledFrom([]string{"always,exit", "task,never", "user,always"}).Draw(t, "A")})
		case 2, 3, 4:
			lhs := rapid.SampledFrom([]string{"uid", "uid", "path", "a0", "key", "arch", "exit", "x.uid", "junk uid", " uid", "\xc3\xbc", "obj_uid", "subj_user",
				"not a filter\nauid", "x\nuid", "\nuid", "uid\n"}).Draw(t, "lhs")
			op := rapid.SampledFrom([]string{"=", "=", "!=", "<", ">", "<=", ">=", "&", "&=", " = ", " >= ", "!", "==", " <"}).Draw(t, "op")
			rhs := rapid.SampledFrom([]string{"0", "0", "/tmp/my file", "/a=b", "=b", ">5", "x y z", "5 ", " 5", "b64", "-EACCES", "a&b", "q uid=1", "", "a<b", "it's", `say "x"`, "1\n2", "tab\tx", "1000\njunk", "0\nuid=1", "\n", "5\n"}).Draw(t, "rhs")
			c.Toks = append(c.Toks, Tok{Flag: "F", Form: form(), Val: lhs + op + rhs})
		case 5:
			c.Toks = append(c.Toks, Tok{Flag: "C", Form: form(), Val: rapid.SampledFrom([]string{"uid=euid", "uid!=euid", "uid=euid junk", "x uid=euid",
				"uid!=euid-x", "uid = euid", "uid>euid", "uid=", "auid!=obj_uid", "uid=euid=suid", "uid =euid",
				"auid!=uid\neuid=suid", "some junk\nauid!=uid", "auid!=uid\nobj_uid and more", "auid!=uid\n", "\nauid!=uid"}).Draw(t, "C")})
		case 6:
			c.Toks = append(c.Toks, Tok{Flag: "S", Form: form(), Val: rapid.SampledFrom([]string{"open", "open,close", " read , write", "all", "1,2,3", "a,,b", "", "open close"}).Draw(t, "S")})
		case 7, 8:
			c.Toks = append(c.Toks, Tok{Flag: "k", Form: form(), Val: rapid.SampledFrom([]string{"k", "a b", "a,b", " lead", "x=y", "", "trail ", "k1,k 2,k3"}).Draw(t, "k")})
		case 9:
			c.Toks = append(c.Toks, Tok{Flag: "p", Form: form(), Val: rapid.SampledFrom([]string{"r", "wa", "rwxa", "rq", "", "xx", "ar", "w a"}).Draw(t, "p")})
		case 10:
			c.Toks = append(c.Toks, Tok{Flag: "w", Form: form(), Val: rapid.SampledFrom([]string{"/etc/passwd", "/tmp/my file", "/a", "rel/path", ""}).Draw(t, "w")})
		case 11:
			c.Toks = append(c.Toks, Tok{Flag: "D", Form: form(), Val: rapid.SampledFrom([]string{"", "", "", "false", "true", "0", "1", "f", "F", "FALSE", "t", "bogus", "no"}).Draw(t, "Dval")})
		case 12:
			c.Toks = append(c.Toks, Tok{Flag: "", Val: rapid.SampledFrom([]string{"extra", "--", "stray word", "-", "always,exit", "uid=0", "", "", " ", "0", "false"}).Draw(t, "stray")})
		case 13:
			c.Toks = append(c.Toks, Tok{Flag: "?", Val: rapid.SampledFrom([]string{"-x", "-Z", "--foo", "-aa", "-FF=uid=0", "-d"}).Draw(t, "unk")})
		}
	}
	// white space that is none for a shell: a word of a line ends at a blank, a tab or a newline and nowhere else.
	// Carriage return, form feed, vertical tab and the Unicode spaces are part of the word they stand in (and a word
	// of their own between blanks). Such a character is put in front of, behind or into some values, and strewn in
	// as a positional word.
	if rapid.IntRange(0, 3).Draw(t, "oddspace") == 0 {
		odd := []string{"\u00a0", "\r", "\u3000", "\f", "\u0085", "\v", "\u2028", "\u2003", "\u1680"}
		for i := range c.Toks {
			tk := &c.Toks[i]
			if !(tk.Flag == "w" || tk.Flag == "F" || tk.Flag == "p" || tk.Flag == "k" || tk.Flag == "S" || tk.Flag == "a") || rapid.IntRange(0, 2).Draw(t, "oddhere") != 0 {
				continue
			}
			ws := rapid.SampledFrom(odd).Draw(t, "oddchar")
			switch rapid.IntRange(0, 3).Draw(t, "oddpos") {
			case 0, 1:
				tk.Val += ws
			case 2:
				tk.Val = ws + tk.Val
			default:
				tk.Val = tk.Val[:len(tk.Val)/2] + ws + tk.Val[len(tk.Val)/2:]
			}
		}
		if rapid.IntRange(0, 3).Draw(t, "oddword") == 0 {
			at := rapid.IntRange(0, len(c.Toks)).Draw(t, "oddwordat")
			w := Tok{Flag: "", Val: rapid.SampledFrom(odd).Draw(t, "oddwordchar")}
			c.Toks = append(c.Toks[:at], append([]Tok{w}, c.Toks[at:]...)...)
		}
	}
	if rapid.IntRange(0, 2).Draw(t, "shuffle") == 0 {
		c.Toks = rapid.Permutation(c.Toks).Draw(t, "perm")
	}
	if rapid.IntRange(0, 7).Draw(t, "dangling") == 0 {
		c.Dangling = rapid.SampledFrom([]string{"\\", " junk\\", " \\", " -k=x\\", " 'open", " \"open", " -k 'k", "\\\\\\"}).Draw(t, "danglingtext")
	}
	return c
}

var c14Ops = []string{"<=", ">=", "&=", "!=", "=", "<", ">", "&"}

func isWord(s string) bool {
	if s == "" {
		return false
	}
	for i := 0; i < len(s); i++ {
		r := s[i]
		if !(r == '_' || r >= '0' && r <= '9' || r >= 'a' && r <= 'z' || r >= 'A' && r <= 'Z') {
			return false
		}
	}
	return true
}

// checkFilter verifies that (LHS, op, RHS) is a partition of the whole argument.
func checkFilter(arg string, f rule.FilterSpec, cmp bool) string {
	if !isWord(f.LHS) {
		return fmt.Sprintf("field %q is not a word", f.LHS)
	}
	// (the parser trims white space around the field name, of any kind; that much is tolerated)
	a := strings.TrimLeftFunc(arg, unicode.IsSpace)
	if !strings.HasPrefix(a, f.LHS) {
		return fmt.Sprintf("field %q is not the start of the argument %q (leading text ignored)", f.LHS, arg)
	}
	rest := strings.TrimLeftFunc(a[len(f.LHS):], unicode.IsSpace)
	if !strings.HasPrefix(rest, f.Comparator) {
		return fmt.Sprintf("operator %q does not follow the field in %q", f.Comparator, arg)
	}
	known := false
	longest := ""
	for _, o := range c14Ops {
		known = known || o == f.Comparator
		if strings.HasPrefix(rest, o) && len(o) > len(longest) {
			longest = o
		}
	}
	if !known {
		return fmt.Sprintf("unknown operator %q", f.Comparator)
	}
	if cmp && f.Comparator != "=" && f.Comparator != "!=" {
		return fmt.Sprintf("-C with operator %q", f.Comparator)
	}
	if len(rest) > len(longest) && f.Comparator != longest {
		return fmt.Sprintf("operator read as %q, the text at that position is %q (argument %q)", f.Comparator, longest, arg)
	}
	val := rest[len(f.Comparator):]
	if f.RHS != val {
		return fmt.Sprintf("value %q is not the complete text %q after the operator (argument %q)", f.RHS, val, arg)
	}
	if f.RHS == "" {
		return "empty value accepted"
	}
	return ""
}

// splitList: every element of every comma list, blanks around it trimmed, empty elements included (an empty
// element is a word of the line like any other: `-S open,close,` names three things, the last one nothing).
func splitList(vs []string) []string {
	var out []string
	for _, v := range vs {
		for _, w := range strings.Split(v, ",") {
			out = append(out, strings.TrimSpace(w))
		}
	}
	return out
}

func dropEmpty(in []string) []string {
	var out []string
	for _, s := range in {
		if s = strings.TrimSpace(s); s != "" {
			out = append(out, s)
		}
	}
	return out
}

func sameList(a, b []string) bool {
	if len(a) != len(b) {
		return false
	}
	for i := range a {
		if a[i] != b[i] {
			return false
		}
	}
	return true
}

func otherParsesDigest() string {
	var b strings.Builder
	for _, l := range otherRules {
		r, err := flags.Parse(l)
		fmt.Fprintf(&b, "%+v %v\n", r, err)
		if v, ok := r.(*rule.SyscallRule); ok { // the rule is the caller's now
			for i := range v.Filters {
				v.Filters[i].LHS, v.Filters[i].RHS = "edited", "edited"
			}
			for i := range v.Syscalls {
				v.Syscalls[i] = "edited"
			}
			for i := range v.Keys {
				v.Keys[i] = "edited"
			}
		}
	}
	return b.String()
}

var otherParsesRef = otherParsesDigest()

func propC14(c C14Case) error {
	line := c.line()
	// a related line first: parsing this one must not depend on it
	_, _ = flags.Parse(line + "x")
	if len(line) > 2 {
		_, _ = flags.Parse(line[:len(line)-1])
	}
	r, err := flags.Parse(line)
	if (r == nil) == (err == nil) {
		return fmt.Errorf("%s: Parse returned (rule nil=%v, err=%v)", c.Describe(), r == nil, err)
	}
	// the rule handed out must not depend on what is parsed afterwards, nor those on what was parsed (or refused) before
	if d := otherParsesDigest(); d != otherParsesRef {
		return fmt.Errorf("%s: fixed lines parsed after this one differ from how they parsed when the process started:\n  now   %s\n  start %s", c.Describe(), d, otherParsesRef)
	}
	if c.Dangling != "" {
		if err == nil {
			return fmt.Errorf("%s: accepted as %+v although the line cannot be tokenised (it ends inside an escape or a quote)", c.Describe(), r)
		}
		hC14.Class("untokenisable-line-refused")
		return nil
	}
	// reference interpretation of the token list
	type farg struct {
		arg string
		cmp bool
	}
	var fArgs []farg
	var sArgs, kArgs, pArgs, wArgs, aArgs, AArgs []string
	dflag, unknown, stray := false, false, false
	for i, t := range c.Toks {
		switch t.Flag {
		case "":
			if t.Val == "--" && i == len(c.Toks)-1 {
				continue // a bare trailing "--" carries no information
			}
			stray = true
		case "?":
			unknown = true
		case "D":
			dflag = true
			if _, err := strconv.ParseBool(t.Val); t.Val != "" && err != nil {
				unknown = true // not a boolean: the line cannot be accepted without ignoring the value
			}
		case "a":
			aArgs = append(aArgs, t.Val)
		case "A":
			AArgs = append(AArgs, t.Val)
		case "F":
			fArgs = append(fArgs, farg{t.Val, false})
		case "C":
			fArgs = append(fArgs, farg{t.Val, true})
		case "S":
			sArgs = append(sArgs, t.Val)
		case "k":
			kArgs = append(kArgs, t.Val)
		case "p":
			pArgs = append(pArgs, t.Val)
		case "w":
			wArgs = append(wArgs, t.Val)
		}
		if stray {
			break // everything after a positional word is positional as well
		}
	}
	fam := 0
	if dflag {
		fam++
	}
	if len(wArgs)+len(pArgs) > 0 {
		fam++
	}
	if len(aArgs)+len(AArgs)+len(fArgs)+len(sArgs) > 0 {
		fam++
	}
	junk := stray || unknown || fam != 1 || len(wArgs) > 1 || len(aArgs)+len(AArgs) > 1
	if err != nil {
		hC14.Class("rejected")
		if junk {
			hC14.Class("junk-line-rejected")
			hC14.NonTrivial(hx.FP(strings.Join(c.args(), "\x00")), c.Describe)
		}
		return nil
	}
	hC14.Class("accepted")
	fail := func(f string, a ...any) error {
		return fmt.Errorf("%s\n  accepted as %+v, but %s", c.Describe(), r, fmt.Sprintf(f, a...))
	}
	switch {
	case stray:
		return fail("the line has a positional word that is not reflected")
	case unknown:
		return fail("the line has an unknown flag")
	case fam != 1:
		return fail("the line mixes %d rule families (delete / watch / syscall)", fam)
	}
	wantKeys := splitList(kArgs)
	special := false
	switch v := r.(type) {
	case *rule.DeleteAllRule:
		if !dflag {
			return fail("a delete rule was returned without -D")
		}
		if !sameList(v.Keys, wantKeys) {
			return fail("keys %q, want %q", v.Keys, wantKeys)
		}
	case *rule.FileWatchRule:
		if len(wArgs)+len(pArgs) == 0 {
			return fail("a watch rule was returned without -w/-p")
		}
		if len(wArgs) > 1 {
			return fail("-w was given %d times", len(wArgs))
		}
		wantPath := ""
		if len(wArgs) == 1 {
			wantPath = wArgs[0]
		}
		if v.Path != wantPath {
			return fail("path %q, want %q", v.Path, wantPath)
		}
		perms := ""
		for _, p := range v.Permissions {
			perms += map[rule.AccessType]string{rule.ReadAccessType: "r", rule.WriteAccessType: "w", rule.ExecuteAccessType: "x", rule.AttributeChangeAccessType: "a"}[p]
		}
		if want := strings.Join(pArgs, ""); perms != want {
			return fail("permissions %q, want %q", perms, want)
		}
		if !sameList(v.Keys, wantKeys) {
			return fail("keys %q, want %q", v.Keys, wantKeys)
		}
	case *rule.SyscallRule:
		if len(aArgs)+len(AArgs) != 1 {
			return fail("a syscall rule needs exactly one of -a/-A, the line has %d/%d", len(aArgs), len(AArgs))
		}
		src := append(append([]string{}, aArgs...), AArgs...)[0]
		var parts []string
		for _, p := range strings.Split(src, ",") {
			parts = append(parts, strings.TrimSpace(p))
		}
		isList := func(s string) bool { return s == "task" || s == "exit" || s == "user" || s == "exclude" }
		isAct := func(s string) bool { return s == "never" || s == "always" }
		if len(parts) != 2 || !((isList(parts[0]) && isAct(parts[1]) && parts[0] == v.List && parts[1] == v.Action) ||
			(isList(parts[1]) && isAct(parts[0]) && parts[1] == v.List && parts[0] == v.Action)) {
			return fail("list/action %q/%q do not reflect %q", v.List, v.Action, src)
		}
		if (len(AArgs) == 1) != (v.Type == rule.PrependSyscallRuleType) || (len(aArgs) == 1) != (v.Type == rule.AppendSyscallRuleType) {
			return fail("rule type %v does not reflect -a/-A", v.Type)
		}
		if len(v.Filters) != len(fArgs) {
			return fail("%d filters for %d -F/-C arguments", len(v.Filters), len(fArgs))
		}
		for i, f := range v.Filters {
			if (f.Type == rule.InterFieldFilterType) != fArgs[i].cmp {
				return fail("filter %d has the wrong kind", i)
			}
			if msg := checkFilter(fArgs[i].arg, f, fArgs[i].cmp); msg != "" {
				return fail("filter %d: %s", i, msg)
			}
			if strings.ContainsAny(f.RHS, " =<>&!") {
				special = true
			}
			if strings.ContainsAny(f.RHS, "\u00a0\r\u3000\f\u0085\v\u2028\u2003\u1680") {
				hC14.Class("accepted-with-white-space-that-is-none-for-a-shell-in-a-value")
			}
		}
		if want := splitList(sArgs); !sameList(v.Syscalls, want) {
			return fail("syscalls %q, want %q", v.Syscalls, want)
		}
		if !sameList(v.Keys, wantKeys) {
			return fail("keys %q, want %q", v.Keys, wantKeys)
		}
	default:
		return fail("unexpected rule type %T", r)
	}
	if special {
		hC14.Class("accepted-with-special-value")
		hC14.NonTrivial(hx.FP(strings.Join(c.args(), "\x00")), c.Describe)
	}
	return nil
}

func TestC14Regress(t *testing.T) { hx.Regress(t, hC14, "TestC14", propC14) }

func TestC14(t *testing.T) { hx.Check(t, hC14, "TestC14", genC14, propC14) }
