#!/usr/bin/env python3
"""Writes MANIFEST.json from the table below (kept next to the checks so the two stay in step)."""
import json
import os

ROOT = os.path.dirname(os.path.abspath(__file__))

HOOK_COMMITS = ["fb90377", "254f974"]

# id -> (technique, level text, level note, design ref)
CLAIMS = {
    "C03": ("model-based property testing (rapid): generated single-goroutine histories vs. reference loss-accounting model, checked per API call",
            "Exploration: 20 000 (quick) / 3.2 million (thorough) generated call histories inside one 2^24 sequence window are run against the real Reassembler; after every call the EventsLost reports of that call are compared with a reference model written from the property text. Generated search cannot prove the universal claim; it gives shrunk counterexamples and measured coverage of the loss / late-arrival / roll-over classes.",
            "Trusts the harness' Stream recorder and the reference model; sequence numbers of a history lie in one 2^24 window as the property states; 'in-order' = after the last in-order delivery.",
            "DESIGN.md section 5, C03"),
    "C01": ("model-based property testing (rapid): generated call histories, message-identity oracle (exactly-once, grouping, order, no split) on the observed callbacks",
            "Exploration: generated histories of PushMessage/Push/Maintain/Close (arbitrary uint32 sequences incl. duplicates, late arrivals, roll-over, values > 2^24 apart; all maxInFlight 0..6 and four timeouts) are executed on the real Reassembler; every callback is compared, by message identity, with the list of records pushed for that sequence since its last delivery, and after Close nothing may be left. Counterexamples shrink to a few operations; absence is not proved.",
            "Trusts the recorder (pointer identity / nonce in raw text). Histories end with Close, as the property says.",
            "DESIGN.md section 5, C01"),
    "C02": ("property testing (rapid): generated windowed histories, pairwise order oracle stated directly on the delivery trace",
            "Exploration: for every pair of deliveries in every generated history the property's own condition is evaluated (a lower sequence may follow a higher one only if its first record was pushed after that delivery), with window offsets as the roll-over aware order. Covers dense collisions, the 2^24 boundary of the comparison and the 2^32 seam.",
            "Sequence numbers of one history lie in one 2^24 window (stated by the property); single goroutine.",
            "DESIGN.md section 5, C02"),
    "C10": ("model-based property testing (rapid): buffered set reconstructed from pushes and deliveries, invariant checked after every call",
            "Exploration: with the timeout far in the future, generated histories over-fill the buffer, complete head and non-head events and interleave Maintain; after every push the reconstructed buffer must hold <= maxInFlight events with an incomplete oldest event, and every delivery outside Close must have a cause (complete or over-full). A second stage repeats the check with finite timeouts and real idle periods: a delivery whose event is neither complete nor evicted by overflow must not happen while the timeout has definitely not elapsed (harness clock read around every call).",
            "Timeout >= 1h excludes the expiry cause as the property's quantifier says; in the timed stage only 'definitely not elapsed' is asserted; terminating record types as in DESIGN.md 4.1.",
            "DESIGN.md section 5, C10"),
    "C19": ("property testing (rapid) with real time: generated histories with sleeps; three-valued interval oracle for expiry plus Close / after-Close / constructor rules",
            "Exploration: histories mix pushes of never-completing events, real sleeps shorter and longer than the timeout, Maintain and Close. From harness clock readings around each call the oracle derives whether an event is definitely expired / definitely live / undetermined at each later call and asserts only the definite cases (must be delivered in this very call as soon as it is the oldest / must not be delivered). Close must flush everything once in order with loss accounting; later Maintain/Close must fail silently; nil Stream must be refused.",
            "Real clock (a fake clock would need rewriting library lines); under load more decisions are undetermined, never wrong. No push after Close.",
            "DESIGN.md section 5, C19"),
    "C04": ("property testing (rapid) + exhaustive type sweep: written header vs parsed header (independent expectation), one-mutation malformed headers",
            "Exploration: lines are generated from (type, seconds, milliseconds, sequence, hostile body) and the parse result of ParseLogLine and Parse is compared field by field with what was written, including ToMapStr's well-known keys; all 65 536 record types are swept exhaustively through three headers; malformed headers (one mutation, malformed under any reading) must give an error and no message.",
            "Type names are the library's String() names (their consistency is C20); three-digit milliseconds; corruptions that still leave a parsable header are not asserted to fail.",
            "DESIGN.md section 5, C04"),
    "C05": ("property testing (rapid) over arbitrary bytes and grammar-aware mutations of kernel-style records + coverage-guided native fuzzing (thorough); totality oracle with panic recovery, hang watchdog and call-twice determinism",
            "Exploration: ~60 000 (quick) / 16 million (thorough) generated inputs plus 2 x 120 s native fuzzing on 16 workers; every input goes through Parse/ParseLogLine under the enrichment types; no panic, no hang, exactly one of (msg, err), Data/Tags/ToMapStr stable across calls and the error surfaced in ToMapStr. Absence of panics is sampled, not proved.",
            "Hang = a case running > 30 s. Native fuzzing cannot be seeded; its crashers are the replay unit.",
            "DESIGN.md section 5, C05"),
    "C12": ("round-trip property testing (rapid): independent kernel-style encoder (internal/kenc) -> Data(); exhaustive sweeps of the arch x syscall tables and the errno list of the kernel header snapshot",
            "Exploration: records are written by an encoder that follows the kernel's formatting rules and shares no code with the parser; Data() must return the original bytes for every decoded field, leave plain fields alone, drop exactly the written placeholders and derive result/unset/errno/arch/syscall by the fixed rules. Errno names are compared with the kernel headers, syscall names with the exported tables, exhaustively.",
            "Value domain as the property states; see DESIGN.md section 7 item 7 for every exclusion.",
            "DESIGN.md section 5, C12"),
    "C06": ("property testing (rapid) by construction: rule grammar whose leaves carry the intended wire value -> Build -> independent audit_rule_data decoder with kernel-header constants; exhaustive syscall-name, syscall-number and field x operator x boundary grids",
            "Exploration: every accepted rule (struct route and flags route) is decoded at fixed UAPI offsets by a decoder that knows nothing of package rule and compared word by word with what the generator asked for (list, action, prepend bit, triples in order, joined keys, back-to-back strings, buflen, padding, exact syscall bits). Field/operator/list/action codes, permission bits, file types, arch codes, errnos and x86_64/i386/aarch64 syscall numbers come from a snapshot of the kernel headers.",
            "Kernel header snapshot (internal/uapi) is trusted; rejection is never demanded; see DESIGN.md section 7 for the flags-route restrictions.",
            "DESIGN.md section 5, C06"),
    "C07": ("round-trip property testing (rapid): Build -> ToCommandLine -> flags.Parse -> Build byte equality and text fixpoint, with an independent decoder to explain differences; syscall number/name sweeps",
            "Exploration: rules of the C06 grammar restricted to the property's domain go through decode -> text -> encode; bytes must be identical and the text a fixpoint. One known finding (arch filter hoisted to the front) is matched by its exact shape — equality up to moving the arch triple — so every other difference is still a violation.",
            "amd64, resolveIds=false; strings without whitespace/quotes/backslash; perm rules use scratch file/dir so that the -w form agrees with the filesystem.",
            "DESIGN.md section 5, C07"),
    "C13": ("totality property testing (rapid) + systematic header-word boundary sweep + native fuzzing (thorough): panic recovery, hang watchdog, allocation bound, independent structural validation of accepted bytes",
            "Exploration: arbitrary Rule structs, byte slices (random, truncated, every catalogue rule with each of its 260 header words replaced by 11 boundary values; thorough: overflowing pairs) and rule lines are pushed through Build / ToCommandLine / flags.Parse; no panic, no hang, allocation <= 1 MiB + 64 x input, and accepted bytes must be structurally valid per an independent decoder. A worker that dies from a fatal error leaves the running case in a crash file that becomes the replay.",
            "Absence of panics is sampled; typed-nil rule pointers excluded.",
            "DESIGN.md section 5, C13"),
    "C14": ("property testing (rapid) over generated token lists with a reference interpretation independent of package flag",
            "Exploration: token lists mixing valid and invalid flag combinations (values with spaces, '=', operator characters, junk before/after, repeated and positional tokens, -x=v/--x forms) are rendered with the harness' own shell quoting; whatever flags.Parse accepts must reflect every token (filters partition their argument completely, lists are complete, one rule family, exactly one of -a/-A).",
            "Acceptance is never demanded; whitespace trimming at item ends and dropping of empty list items are tolerated.",
            "DESIGN.md section 5, C14"),
    "C08": ("model-based property testing (rapid): generated operation histories against a scripted simulated kernel (errno, interleaved events, transient receive failures, foreign sequence numbers), result/data oracle per operation",
            "Exploration: every command method is run against a simulated kernel whose answer script is part of the generated case; nil must coincide with 'every ack errno 0 and no foreign reply', errors must identify the errno, returned status/rules/counts must equal what the kernel sent, and the request seen by the kernel must carry the UAPI type, REQUEST|ACK and the caller's payload.",
            "Simulated kernel (internal/simk) instead of the real audit subsystem; request sequence 0 is never handed out; at most 9 transient failures in a row.",
            "DESIGN.md section 5, C08"),
    "C16": ("property testing (rapid) + exhaustive length sweep against an independent audit_status layout and the kernel header snapshot",
            "Exploration: the request the simulated kernel sees for every setter x argument x wait mode is compared word by word with an independently written audit_status layout; GetStatus and FromWireFormat are checked on generated buffers of every length 0..80 inside poisoned arenas with garbage-filled receivers; all exported constants are compared with the kernel's numbers.",
            "Field offsets hand-written from struct audit_status; constants from the committed header snapshot.",
            "DESIGN.md section 5, C16"),
    "C17": ("model-based property testing (rapid): pending-ACK list model, Close bookkeeping from the kernel's view, aliasing check through a reused poisoned receive buffer; race-detector stress of concurrent Close",
            "Exploration: histories of NoWait/WaitForReply requests, WaitForPendingACKs (also repeated / with nothing pending), GetRules followed by more traffic, and 0..4 Close calls; the number of receive calls, the error returned, the requests sent at Close and the socket-close count are predicted by a model; returned rule slices are compared with snapshots after every later receive. Concurrent Close from 2..8 goroutines runs under -race.",
            "No synchronous request while ACKs are pending; return value of later Close calls unasserted.",
            "DESIGN.md section 5, C17"),
    "C18": ("property testing (rapid) against real AF_NETLINK sockets using the kernel's verbatim echo of refused requests as the oracle; spoofed datagrams from a second socket; exhaustive length sweeps; race-detector stress of concurrent senders",
            "Exploration: requests with generated type/flags/payload are sent to NETLINK_ROUTE; the kernel refuses them and echoes the request, so header length, type, flags, port id, sequence and payload on the wire are observed through the kernel and compared with what was sent and returned. Datagrams of every length 1..64 from a user-space sender (unicast and multicast) must be refused; the audit parser is swept over every buffer length. N x M concurrent sends must give distinct, per-goroutine increasing sequences equal to those on the wire.",
            "Needs AF_NETLINK (undecided otherwise). A kernel datagram of exactly 16 bytes cannot be provoked in the sandbox, so that boundary of NetlinkClient.Receive is not reached.",
            "DESIGN.md section 5, C18"),
    "C09": ("property testing (rapid) with taint tracking: kernel-style event builder with unique-token values, 'nothing lost' decided by searching the tokens in the event; exhaustive sweep of all 65536 st_mode values",
            "Exploration: events (single records of many types, SYSCALL groups with any subset/order of CWD, PATH x n, EXECVE, SOCKADDR, PROCTITLE, AVC and other records, key collisions, degenerate groups) are written by the independent encoder with a unique token in every value; after coalescing every (key, value) of every record must be found in the event or be named by a warning, identity must be the first record's, and a file summary must mirror exactly one PATH record. All 2^16 modes are swept on the selected PATH. One known finding (non-regular file types summarised as 'file') is matched by its exact shape and excluded.",
            "device may be rdev or dev; object type unasserted for S_IFMT values outside the seven valid types; vocabulary values checked under their key.",
            "DESIGN.md section 5, C09"),
    "C15": ("stateful property testing (rapid): histories of coalesce/resolve calls over a pool of message groups with deep snapshots as oracle; race-detector stress comparing concurrent with sequential results",
            "Exploration: pools of message groups (well-formed events and damaged text) are coalesced and resolved in generated orders, repeatedly; after every call the Data/Tags/ToMapStr snapshots of every message and the deep copies of every earlier event must be unchanged, and a repeated coalescing must give an equal event. Eight goroutines coalesce and resolve disjoint groups with cold shared caches under -race and must reproduce the sequential results.",
            "Warnings compared as sorted texts (their order comes from map iteration); nil/empty containers not distinguished.",
            "DESIGN.md section 5, C15"),
    "C20": ("bounded-exhaustive enumeration of every table entry with inverse/consistency oracles (no randomness)",
            "Exploration (exhaustive over finite tables): all 65 536 record types both ways and through text marshalling, every name of the name->type table, every errno entry both ways, every arch name/code (also through rule.Build), every syscall table entry, every rule field/operator/comparison through Build -> ToCommandLine -> Build, every syscall and record type named in normalizations.yaml through the exported loader. The space is finite and enumerated completely on every run.",
            "Internal consistency only (agreement with the kernel is C06/C12/C16); the unexported name->type table is read from the generated source of the working tree.",
            "DESIGN.md section 5, C20"),
    "C11": ("schedule exploration with a harness-owned cooperative scheduler (yield hook, build tag verif): random schedules generated and shrunk by rapid, bounded-exhaustive depth-first enumeration of all schedules of small programs, plus race-detector stress on real threads",
            "Exploration: interleavings at the granularity of the Reassembler's atomic steps are generated values. 3 000 (quick) / 800 000 (thorough) random program+schedule cases and the exhaustive enumeration of every schedule of 14 (quick) / 20 (thorough) catalogue programs (up to 2 million schedules each) check at-most-once delivery, single-sequence callbacks, exactly-once delivery of everything pushed before Close, exactly one successful Close and absence of deadlock; re-entrant callbacks included. Races inside a step are sampled by the -race stress.",
            "Needs the verif hook (add-only yield calls). Exhaustive only for small programs and only at yield-point granularity.",
            "DESIGN.md section 5, C11"),
}

NOT_YET = "not claimed"


# what the rounds of independently seeded changes added (appended to the level text; details: DESIGN.md section 5,
# "What the seeded rounds added", and section 8)
ADDED = {
    "C01": "Also: calls made by the Stream from inside callbacks, histories with hundreds of events in flight, record types from the whole range, and every slice handed to the Stream is kept and compared with its original elements at the end. Two records of one event with the same text. Histories in which one call delivers 63..300 (thorough: ..3000) events at once (an incomplete head event holds back complete ones), with gaps and late arrivals. One event of 2^k-1, 2^k, 2^k+1 records for k = 4..10 (thorough: also 12 and 16). Five events around the 2^32 roll-over, first seen in every one of the 120 orders, completed late or right after the next one was first seen, with maxInFlight 5 and 2; records carry timestamps of their own (none, an hour ahead, an hour behind, the year 2200).",
    "C02": "Also: Close in the middle of a history with calls after it; histories with hundreds of events in flight. Histories in which one call delivers 63..300 (thorough: ..3000) events at once (an incomplete head event holds back complete ones), with gaps and late arrivals. An event delivered again without a new record keeps the push position of its records (re-delivery after Close is an order violation). Five events around the 2^32 roll-over, first seen in every one of the 120 orders, completed late or right after the next one was first seen, with maxInFlight 5 and 2; records carry timestamps of their own (none, an hour ahead, an hour behind, the year 2200).",
    "C03": "Also: Close in the middle of a history with calls after it; histories with hundreds of events in flight; record types from the whole range. Histories in which one call delivers 63..300 (thorough: ..3000) events at once (an incomplete head event holds back complete ones), with gaps and late arrivals. One event of 2^k-1, 2^k, 2^k+1 records for k = 4..10 (thorough: also 12 and 16). Five events around the 2^32 roll-over, first seen in every one of the 120 orders, completed late or right after the next one was first seen, with maxInFlight 5 and 2; records carry timestamps of their own (none, an hour ahead, an hour behind, the year 2200). A sequence number counted as lost is never one whose event is in the buffer at that moment.",
    "C10": "Also: histories that continue after Close, buffers of more than 64 / 256 events in random histories and a deterministic stage with buffers of 1025..8193 events. Histories in which one call delivers 63..300 (thorough: ..3000) events at once (an incomplete head event holds back complete ones), with gaps and late arrivals. One event of 2^k-1, 2^k, 2^k+1 records for k = 4..10 (thorough: also 12 and 16). Records carry timestamps of their own.",
    "C11": "Also: half of the stress records go through Push(type, raw) with a check of the parsed header, a light-weight Close-versus-push stress, re-entrant completing pushes, and every stress round runs under a hang watchdog (a round that never returns is reported as a deadlock with a goroutine dump). The Stream re-enters from EventsLost as well as from ReassemblyComplete.",
    "C19": "Also: further records for buffered events (a late record must not make its event younger), pushes after Close, and a deterministic stage with 129..3000 stale events flushed by one call. A Stream that calls Close from inside a callback while the interrupted call has more to deliver and younger events are buffered: every record delivered exactly once, Close's deliveries in order, later calls fail. A Stream that sleeps in its callback and then calls Maintain or pushes: events that have expired by then are delivered by that nested call. Histories with real sleeps of 0.7 s and 1.2 s (thorough: up to 11 s) under timeouts of three times the sleep, an hour and 'never', run side by side. Records carry timestamps of their own (none, an hour ahead of the clock, an hour behind, the year 2200).",
    "C04": "Also: a line with a related header is parsed right before (same timestamp, sequence number that is a decimal prefix or extension), and an unrelated line between obtaining and checking a result; the missing-blank and missing-type damages. Fixed lines parsed after every input are compared with process start. The map ToMapStr returned is emptied and scribbled on before the next call.",
    "C05": "Also: lines glued from header pieces (rapid) and an exhaustive sweep of every concatenation of up to 4 (thorough: 5) header pieces through ParseLogLine and Parse. Results are snapshotted byte for byte, other records with hex values are decoded in between, and fixed records decoded after every input (also refused ones) are compared with how they decoded at process start. Every map handed out is emptied and scribbled on before the calls are repeated. A body sweep: for AVC (SELinux, AppArmor) and LOGIN records every combination of one spelling per slot (the kernel's 'null' access vector and the missing part included), and every concatenation of up to 3 (thorough: 4) words of the AVC, LOGIN, EXECVE, user-space msg and SOCKADDR grammars.",
    "C12": "Also: IPv6 addresses of 24..27 bytes, unnamed and abstract unix addresses, the old pam record form, values up to 8193 bytes, kernel threads, and related / unrelated records decoded before and after the record under test. IPv6 addresses of the special prefixes (link-local, unique-local, multicast, 6to4, NAT64). Fixed records decoded after every input are compared with process start. Negative syscall numbers (-1: cancelled by a tracer), INT_MIN/INT_MAX and x32 numbers. The old pam form (closing parenthesis on the result) for every user-space record type.",
    "C06": "Also: numbers no 32-bit field can hold, accounts by name, symbolic links as watch paths, values and keys up to the stated limits, empty keys, accepted rules with 60..64 fields incl. a tail of comparisons, related rules built first. FIFOs and unix sockets as watch paths. Fixed rules built after every generated rule (accepted or refused) are compared with process start; syscall names under architectures without a table. The bytes and rules returned for the fixed follow-up rules are scribbled on by the caller.",
    "C07": "Also: every byte the domain admits in values and keys, watch-shaped syscall rules (and shapes one step away) over directories, files, links, dangling links, missing paths and base names of 255..4000 bytes, rules larger than 8970 bytes. Watch paths with glob, shell and flag characters and any other byte the domain admits. Every record type 0..65535 as a msgtype filter and every exit code -4200..4200 through display and re-encoding.",
    "C13": "Also: a sweep of every field x list x every concatenation of up to 2 (thorough: 3) value pieces, the 60..70 field sweep in every mix of -F/-C/keys, access types 0..7. FIFOs, unix sockets and links to directories as watch paths (under the hang watchdog). After every refused rule a plain rule that needs the tables is built and compared with process start; a sweep of every architecture name in front of syscalls by name and by number. Every field code 0..255 with every value 0..130 (thorough: 0..300) in a valid one-field rule through ToCommandLine.",
    "C14": "Also: clean single-family lines with tricky but valid values (more than half of the cases are accepted lines), Go's boolean flag syntax for -D, newlines inside arguments, lines that end inside an escape or a quote. Comma-separated lists are compared element for element (empty elements kept). Fixed lines parsed after every line (also refused ones) are compared with process start. Carriage return, form feed, vertical tab and Unicode spaces (no word separators for a shell) in front of, behind and inside values and as positional words. Keys and syscalls with prefixes that mean something to somebody (sys_, __NR_) and keys that look like values of other flags.",
    "C08": "Also: a real-transport stage (the library's own NetlinkClient against rtnetlink in a private network namespace: every command as the first one of a fresh client must report the kernel's EOPNOTSUPP although 0..3 unsolicited sequence-0 kernel messages are queued first); batches of NoWait setters drained by WaitForPendingACKs before an operation; up to 60 unsolicited records before a reply. A sweep of status replies whose fields equal version numbers and feature bits. GetRules/DeleteRules with 17..300 rules of 1040..8954 bytes. Up to 1025 unsolicited records before a reply. Failing receives reported bare, as *os.SyscallError or wrapped with %w, per history. Every status GetStatus returned is kept and read again before each later operation.",
    "C16": "Also: repeated GetStatus with earlier results held, the status reply queued before the ACK, runs of 3..1025 setters without waiting, every setter after a GetStatus on the same client, and a sweep of every field over small and boundary values. 2..8 clients used concurrently (plain and -race), each over its own simulated kernel. Setters whose wait goes wrong (first receive fails with one of seven errnos, records before the acknowledgement, a refusal): exactly one request is sent. Requests the socket refuses (either wait mode). GetStatus on the clients NewAuditClient and NewMulticastAuditClient return, against the kernel's audit socket (read-only).",
    "C17": "Also: WaitForPendingACKs after Close, calls on the closed client followed by Close, closing the socket itself failing (EINTR, EIO, EBADF), answers of another type than NLMSG_ERROR, runs of 33..300 unacknowledged requests, 9..25 unsolicited records before an ACK. NoWait setters whose send the kernel refuses. Every setter carries NoWait and WaitForReply requests. Histories that start just below 2^32, so that a request is numbered 0; 64, 65 and 129 unsolicited records before an ACK. Synchronous requests whose reply cannot be read (ENOBUFS, EBADF, ENOTCONN, EIO).",
    "C18": "Also: a client whose read buffer the kernel's reply fills exactly, kernel multicast notifications caused by another socket (private network namespace; byte-identical to what a raw socket in the same group read), plausible headers with inconsistent length words for the audit message parser, a sequence field prefilled by the caller, and the client NewAuditClient returns reading replies up to the documented maximum from the kernel's audit socket (requests of an unknown type only). A uevent stage: datagrams of arbitrary (unaligned) length broadcast by the kernel on NETLINK_KOBJECT_UEVENT in a private network namespace must reach the parser byte-exact. A client that is member of a multicast group sends: the kernel answers, the other members of the group receive nothing. A sweep of nlmsg_flags values (zero and values without NLM_F_REQUEST among them) on the audit socket, which echoes a message of the unknown type 1098 whatever its flags are. The calls around the 2^32-th Send (the client's counter is set just below the wrap through reflection): returned numbers pairwise distinct, increasing modulo 2^32, and what the kernel echoes.",
    "C09": "Also: undecodable and unknown-family socket addresses, up to 1025 EXECVE arguments and 13 PATH records, realistic small numbers (items = number of PATH records), keys named like the SYSCALL record's own in other records, repeated keys, syscalls from the whole normalisation table, related / unrelated groups coalesced before and after. An event whose object is a file kind and that has PATH records must have a file summary or a warning; a fixed group coalesced after every event is compared with process start. For SYSCALL events whose normalisation names a PATH record h > 0: the file summary is about a record at index >= h, and about record h unless its name type is PARENT or UNKNOWN. Records with 65..1025 distinct fields; values (process title, cwd, path names, arguments) padded to lengths around 128, 256, 1024 and 4096; unknown syscall numbers incl. -1. SELinux contexts with MLS ranges that have colons of their own.",
    "C15": "Also: repeated keys, records that fail enrichment, every concurrent round under a hang watchdog. A cache-churn stage (thousands of new ids), same-syscall groups, and a table-isolation sweep per syscall with an object-path hint in a process that has coalesced nothing else (rich event, poorer events with 0..3 PATH records, the rich event again: equal results). Records with 65..1025 distinct fields and values padded to lengths around 128, 256, 1024 and 4096. A first-sight stage (plain and -race): eight goroutines coalesce record types, syscall numbers, architectures and ids that nothing in the process has seen before; compared with a sequential second pass. SELinux contexts with MLS ranges that have colons of their own (six and seven parts).",
    "C20": "Also: alias numbers from errno.h, both operand orders of every comparison, architecture names through Build, and for every entry of every record type a record carrying exactly that entry's has_fields must come out with that entry's action. The bytes MarshalText returns are overwritten by the caller and the value marshalled again; every exported table and every String/MarshalText result is snapshotted before and after a workload of parsing, coalescing and rule building. Every single-entry record type x one syscall per distinct categorisation as compound events (1590 pairs), all kept and compared after the sweep. exit=-N for N = 1..4200 through the parser: the name shown maps back to N. Every (architecture, number, name) of every syscall table as the parser shows it and as the rule encoder resolves it. A first-use stage: eight fresh child processes in which 32 goroutines resolve every syscall name of every architecture at once.",
}


def main():
    for pid, extra in ADDED.items():
        tech, text, note, ref = CLAIMS[pid]
        CLAIMS[pid] = (tech, text + " " + extra, note, ref)
    props = [json.loads(l) for l in open(os.path.join(ROOT, "properties.jsonl"))]
    checks = []
    na = []
    for p in props:
        pid = p["id"]
        if pid not in CLAIMS:
            na.append(dict(property_id=pid, reason=NOT_YET))
            continue
        tech, text, note, ref = CLAIMS[pid]
        checks.append(dict(
            property_id=pid,
            quick_cmd="python3 check.py %s --tier quick" % pid,
            thorough_cmd="python3 check.py %s --tier thorough" % pid,
            evidence_file="/verif/evidence/%s.json" % pid,
            replay_cmd_template="python3 check.py %s --replay {path}" % pid,
            engine="go-pbt",
            level_claimed=dict(category="exploration", text=text, design_ref=ref),
            level_note=note,
            technique=tech,
        ))
    m = dict(
        version=1,
        setup_cmd="sh setup.sh",
        hooks=dict(
            guard="verif",
            enable="go build tag: go test -tags verif (check.py builds every test binary with -tags verif from /repo's working tree through the replace directive in /verif/go.mod)",
            baseline_off_cmd="cd /repo && GOFLAGS=-mod=mod GOPROXY=off GOSUMDB=off GOTOOLCHAIN=local go test -json -vet=off -count=1 -timeout 25m ./...",
            source_commits=HOOK_COMMITS,
            add_only=True,
        ),
        engines=[dict(
            name="go-pbt",
            path="/verif/check.py",
            serves_properties=sorted(CLAIMS),
            kind_free_text="property-based testing and fuzzing: pgregory.net/rapid v1.3.0 generators with shrinking, bounded-exhaustive enumeration, harness-owned scheduler, race-detector stress and native go fuzzing, each against an explicit oracle (reference model, independent encoder/decoder, round trip, metamorphic relation); python3 driver merges per-process evidence fragments",
        )],
        checks=checks,
        not_applicable=na,
        notes="Exit codes of every check: 0 held / 1 VIOLATION line / 2 undecided (build failure, harness budget, vacuous run). VERIF_SEED selects the PRNG seed (0 is remapped). Known findings: known_findings.txt. Sensitivity results: DESIGN.md section 8 and seeded/.",
    )
    with open(os.path.join(ROOT, "MANIFEST.json"), "w") as f:
        json.dump(m, f, indent=1)
        f.write("\n")


if __name__ == "__main__":
    main()
